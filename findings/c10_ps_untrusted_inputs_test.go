// Demonstrations of genuine defects (C10: "no byte string arriving from an untrusted client at the signing-request and
// signature/proof verification entry points can make the process panic"). Place at mpc/ps/zz_c10_untrusted_test.go and run
//   go test -count=1 -run 'TestC10' ./...        (in mpc/ps)
// Each test passes on the repaired tree (the input is rejected with an error) and fails on the tree before the fix named in
// its comment (the call panics; the test recovers the panic and reports it).

package ps

import (
	"context"
	"encoding/asn1"
	"fmt"
	"testing"

	math "github.com/IBM/mathlib"
)

type c10Logger struct{}

func (c10Logger) Debugf(string, ...interface{}) {}
func (c10Logger) Infof(string, ...interface{})  {}
func (c10Logger) Warnf(string, ...interface{})  {}
func (c10Logger) Errorf(string, ...interface{}) {}
func (c10Logger) DebugEnabled() bool            { return false }

func c10NoPanic(t *testing.T, what string, f func() error) {
	t.Helper()
	defer func() {
		if r := recover(); r != nil {
			t.Fatalf("%s: PANIC %v", what, r)
		}
	}()
	if err := f(); err == nil {
		t.Fatalf("%s: accepted", what)
	} else {
		t.Logf("%s: rejected: %v", what, err)
	}
}

func c10Verifier(msgLen int) (*Verifier, PP, SK, PK) {
	c := math.Curves[1]
	pp := Setup(c, msgLen)
	sk, pk := LocalKeyGen(pp)
	return &Verifier{c: c, msgLen: msgLen, pp: pp, tpk: pk}, pp, sk, pk
}

// a proof whose outer SEQUENCE OF has fewer than five elements: SigPoK.fromBytes indexed Data[0..4] unchecked
func TestC10ProofWithTooFewComponents(t *testing.T) {
	v, _, _, _ := c10Verifier(2)
	for n := 0; n < 5; n++ {
		data := make([][]byte, n)
		for i := range data {
			data[i] = []byte{1, 2, 3}
		}
		raw, err := asn1.Marshal(RawSigPok{Data: data})
		if err != nil {
			t.Fatal(err)
		}
		c10NoPanic(t, fmt.Sprintf("Verifier.Verify(proof with %d components)", n), func() error { return v.Verify(raw) })
	}
}

// a proof of knowledge that carries more exponents x than the key has Y components: checkcommitmentForm indexed Y[i] unchecked
func TestC10ProofWithTooManyExponents(t *testing.T) {
	v, pp, _, pk := c10Verifier(2)
	c := pp.c
	// an honest proof for the right length, then two more exponents appended
	m := []*math.Zr{c.NewZrFromInt(5), c.NewZrFromInt(7), c.NewZrFromInt(9)}
	h := c.GenG1.Mul(c.NewZrFromInt(3))
	hPrime := h.Mul(c.NewZrFromInt(11))
	π := PoKofSig(&pp, pk, h, hPrime, m)
	π.ψ.x = append(π.ψ.x, c.NewZrFromInt(1), c.NewZrFromInt(2))
	c10NoPanic(t, "Verifier.Verify(proof with more exponents than key components)", func() error { return v.Verify(π.Bytes()) })
}

func c10Signer(msgLen int) (*TPS, PP) {
	c := math.Curves[1]
	pp := Setup(c, msgLen)
	sk, _ := LocalKeyGen(pp)
	return &TPS{Curve: c, Logger: c10Logger{}, MessageLength: msgLen, pp: pp, sk: sk}, pp
}

func c10Request(pp PP) BlindSignature {
	c := pp.c
	bs, _ := Blind(&pp, c, []*math.Zr{c.NewZrFromInt(5), c.NewZrFromInt(7)})
	return bs
}

// a signing request whose ciphertext component is not a curve point: BlindSignature.fromBytes ignored the parse error and
// stored a nil point, which SignBlindSignature then dereferenced
func TestC10RequestWithUnparsablePoint(t *testing.T) {
	tps, pp := c10Signer(2)
	bs := c10Request(pp)
	var raw RawBlindSignature
	if _, err := asn1.Unmarshal(bs.Bytes(), &raw); err != nil {
		t.Fatal(err)
	}
	raw.A[1] = []byte{1, 2, 3}
	msg, err := asn1.Marshal(raw)
	if err != nil {
		t.Fatal(err)
	}
	c10NoPanic(t, "TPS.Sign(request with an unparsable a[1])", func() error { _, err := tps.Sign(context.Background(), msg); return err })
}

// a signing request with fewer components than the message length: BlindCorrectFormProof.Verify and SignBlindSignature
// indexed x[i], y[i], d[i], f[i], a[i], b[i] for i < n unchecked
func TestC10RequestWithTooFewComponents(t *testing.T) {
	tps, pp := c10Signer(2)
	for _, cut := range []string{"proof.x", "proof.y", "proof.d", "proof.f", "a", "b"} {
		bs := c10Request(pp)
		var raw RawBlindSignature
		if _, err := asn1.Unmarshal(bs.Bytes(), &raw); err != nil {
			t.Fatal(err)
		}
		var proof RawBlindCorrectProof
		if _, err := asn1.Unmarshal(raw.CorrectFormProof, &proof); err != nil {
			t.Fatal(err)
		}
		switch cut {
		case "proof.x":
			proof.X = proof.X[:1]
		case "proof.y":
			proof.Y = proof.Y[:1]
		case "proof.d":
			proof.D = proof.D[:1]
		case "proof.f":
			proof.F = proof.F[:1]
		case "a":
			raw.A = raw.A[:1]
		case "b":
			raw.B = raw.B[:1]
		}
		var err error
		if raw.CorrectFormProof, err = asn1.Marshal(proof); err != nil {
			t.Fatal(err)
		}
		msg, err := asn1.Marshal(raw)
		if err != nil {
			t.Fatal(err)
		}
		c10NoPanic(t, "TPS.Sign(request with a truncated "+cut+")", func() error { _, err := tps.Sign(context.Background(), msg); return err })
	}
}
