// Demonstration of a genuine defect (C19, "a signature is returned only for the digest that the caller asked to sign").
// Place at mpc/binance/eddsa/zz_c19_leading_zero_test.go and run: go test -count=1 -run TestC19LeadingZeroDigest ./...
//
// The adapter converts the requested digest to a big.Int and lets tss-lib sign m.Bytes(): a digest that starts with a zero
// byte loses it, the parties sign a *different* byte string, and Sign returns that signature with a nil error. Before the
// fix the signature does not verify for the requested digest (it verifies for the digest without its leading zero bytes).

package ecdsa

import (
	"crypto/ed25519"
	"crypto/sha256"
	"testing"
)

type c19NopLogger struct{}

func (c19NopLogger) Debugf(string, ...interface{}) {}
func (c19NopLogger) Warnf(string, ...interface{})  {}
func (c19NopLogger) Errorf(string, ...interface{}) {}

func TestC19LeadingZeroDigest(t *testing.T) {
	ps := parties{NewParty(1, c19NopLogger{}), NewParty(2, c19NopLogger{}), NewParty(3, c19NopLogger{})}
	ps.init(senders(ps))
	shares, err := ps.keygen()
	if err != nil {
		t.Fatalf("keygen: %v", err)
	}
	// a SHA-256 digest whose first byte is zero (1 in 256 digests): search a counter
	var digest [32]byte
	for i := 0; ; i++ {
		digest = sha256.Sum256([]byte{byte(i), byte(i >> 8), byte(i >> 16)})
		if digest[0] == 0 {
			break
		}
	}
	ps.init(senders(ps))
	ps.setShareData(shares)
	sigs, err := ps.sign(digest[:])
	if err != nil {
		t.Fatalf("Sign returned an error: %v", err)
	}
	pk, err := ps[0].ThresholdPK()
	if err != nil {
		t.Fatalf("ThresholdPK: %v", err)
	}
	for i, sig := range sigs {
		if !ed25519.Verify(pk, digest[:], sig) {
			t.Errorf("signature #%d returned by Sign does not verify for the requested digest %x", i, digest)
			if ed25519.Verify(pk, digest[1:], sig) {
				t.Errorf("   it is a valid signature for the digest without its leading zero byte")
			}
		}
	}
}
