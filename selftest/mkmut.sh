#!/bin/sh
# mkmut.sh <name> <property> <expect> <file relative to repo> <sed expression>   -- creates a forward mutant patch from /repo HEAD
S=$(mktemp -d /tmp/mkmut.XXXXXX); git -C /repo archive HEAD | tar -x -C $S; mkdir -p $S.b; cp -r $S/. $S.b/
sed -i "$5" $S.b/$4
( echo "# property: $2"; echo "# expect: $3"; cd /tmp && diff -u ${S#/tmp/}/$4 ${S#/tmp/}.b/$4 | sed "s#^--- ${S#/tmp/}/#--- a/#; s#^+++ ${S#/tmp/}.b/#+++ b/#" ) > /verif/selftest/mutants/$1.patch
n=$(grep -c '^[-+][^-+]' /verif/selftest/mutants/$1.patch); rm -rf $S $S.b; echo "$1: $n changed lines"
