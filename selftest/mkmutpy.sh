#!/bin/sh
# mkmutpy.sh <name> <property> <expect> <file relative to repo> <python file: reads text s, must assign s>   -- like mkmut.sh with a python edit
S=$(mktemp -d /tmp/mkmut.XXXXXX); git -C /repo archive HEAD | tar -x -C $S; mkdir -p $S.b; cp -r $S/. $S.b/
python3 - "$S.b/$4" "$5" <<'PY'
import sys
p,edit=sys.argv[1],sys.argv[2]
s=open(p).read(); o=s
g={'s':s}
exec(open(edit).read(),g)
s=g['s']
assert s!=o, "edit changed nothing"
open(p,'w').write(s)
PY
[ $? -eq 0 ] || { rm -rf $S $S.b; echo "$1: edit failed"; exit 1; }
( echo "# property: $2"; echo "# expect: $3"; cd /tmp && diff -u ${S#/tmp/}/$4 ${S#/tmp/}.b/$4 | sed "s#^--- ${S#/tmp/}/#--- a/#; s#^+++ ${S#/tmp/}.b/#+++ b/#" ) > /verif/selftest/mutants/$1.patch
n=$(grep -c '^[-+][^-+]' /verif/selftest/mutants/$1.patch); rm -rf $S $S.b; echo "$1: $n changed lines"
