#!/bin/sh
# Must-fail corpus: every patch in selftest/mutants/*.patch is applied to a scratch copy of /repo's HEAD
# (outside /repo and /verif); the named property check must exit 1 and name the expected obligation.
# Patch header lines:   # property: Cxx     # expect: <substring of the failing obligation name>
# usage: selftest/run.sh [pattern]
export GOFLAGS=-mod=mod GOPROXY=off GOSUMDB=off GOTOOLCHAIN=local
cd /verif || exit 2
[ -x bin/govc ] || (cd engine && go build -o /verif/bin/govc ./cmd/govc) || exit 2
fail=0; n=0
for p in selftest/mutants/*${1}*.patch; do
  [ -f "$p" ] || continue
  prop=$(sed -n 's/^# property: *//p' "$p" | head -1)
  expect=$(sed -n 's/^# expect: *//p' "$p" | head -1)
  reverse=$(sed -n 's/^# reverse: *//p' "$p" | head -1)
  S=$(mktemp -d /tmp/govc-selftest.XXXXXX)
  git -C /repo archive HEAD | tar -x -C "$S"
  if [ "$reverse" = "yes" ]; then R="-R"; else R=""; fi
  if ! (cd "$S" && patch $R -p1 -s < "/verif/$p" >/dev/null 2>&1); then
    echo "SELFTEST $p: patch does not apply"; fail=1; rm -rf "$S"; continue
  fi
  O=$(mktemp -d /tmp/govc-selftest-out.XXXXXX)
  out=$(GOVC_OUT="$O" bin/govc -repo "$S" -prop "$prop" -tier quick 2>&1); rc=$?
  n=$((n+1))
  if [ $rc -eq 1 ] && echo "$out" | grep -q "VIOLATION property=$prop" && echo "$out" | grep -F -q -- "$expect"; then
    echo "SELFTEST ok   $p ($prop: $(echo "$out" | grep -c '^VIOLATION') violation lines)"
  else
    echo "SELFTEST FAIL $p: rc=$rc, expected VIOLATION property=$prop naming '$expect'"; echo "$out" | tail -5; fail=1
  fi
  rm -rf "$S" "$O"
done
echo "selftest: $n mutants, fail=$fail"
exit $fail
