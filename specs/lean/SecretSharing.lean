/-
C18 — the mathematical meaning of the specification functions that the Go code is proved (by govc/SMT) to refine.

The definitions below are transliterations of the `spec func`s in /repo/mpc/bls/zz_contracts_verif.go (and the ps copy):
  polyEval, lterm, lagSpec, prodAll-free form of the Lagrange coefficient, recF (reconstruct), over an arbitrary field F.
Index sequences are functions ℕ → F (the SMT side uses total functions Int → F / Int → Int guarded by 0 ≤ j < k; the
integer points are compared as integers there, which is the same as comparing their images in F as long as the embedding
of the points 1..n into the field is injective: n is far below the group order — listed as an assumption).

Checked by: cd /opt/veriftools/mathlib4 && lake env lean /verif/specs/lean/SecretSharing.lean   (no sorry, no axioms added)
-/
import Mathlib.LinearAlgebra.Lagrange

-- The texts below are compared, on every run of the C18 check, with the `spec func` lines of the contract files in /repo
-- (mpc/bls and mpc/ps): if a specification function changes, the theorems no longer speak about it and the check fails.
-- govc-spec polyEval: polyEval(a seq[F], x int, k int) F = ite(k <= 0, fint(0), fadd(polyEval(a, x, k-1), fmul(fpow(fint(x), fint(k-1)), a[k-1])))
-- govc-spec lterm: lterm(j int, i int) F = fmul(fint(j), finv(fsub(fint(j), fint(i))))
-- govc-spec lagSpec: lagSpec(a seq[int], i int, k int) F = ite(k <= 0, fint(1), ite(a[k-1] == i, lagSpec(a, i, k-1), fmul(lagSpec(a, i, k-1), lterm(a[k-1], i))))
-- govc-spec prodAll: prodAll(b seq[F], m int) F = ite(m <= 0, fint(1), fmul(prodAll(b, m-1), b[m-1]))
-- govc-spec recF: recF(s seq[F], a seq[int], n int, k int) F = ite(k <= 0, fint(0), fadd(recF(s, a, n, k-1), fmul(s[a[k-1]-1], lagSpec(a, a[k-1], n))))
-- govc-spec aggG1@bls: aggG1(sig seq[G1], a seq[int], n int, z G1, k int) G1 = ite(k <= 0, z, g1add(aggG1(sig, a, n, z, k-1), g1mul(sig[k-1], lagSpec(a, a[k-1], n))))
-- govc-spec aggG2: aggG2(pk seq[G2], a seq[int], n int, z G2, k int) G2 = ite(k <= 0, z, g2add(aggG2(pk, a, n, z, k-1), g2mul(pk[a[k-1]-1], lagSpec(a, a[k-1], n))))
-- govc-spec sumG1@ps: sumG1(p seq[G1], s seq[F], z G1, k int) G1 = ite(k <= 0, z, g1add(sumG1(p, s, z, k-1), g1mul(p[k-1], s[k-1])))
-- govc-spec sumG2@ps: sumG2(p seq[G2], s seq[F], z G2, k int) G2 = ite(k <= 0, z, g2add(sumG2(p, s, z, k-1), g2mul(p[k-1], s[k-1])))
-- Correspondence: polyEval ~ TSS.polyEval; lterm ~ TSS.lterm; lagSpec ~ TSS.lagSpec; prodAll(b, m) is the running product that
-- the code accumulates (lagrangeCoefficient proves prodAll(factors) == lagSpec); recF ~ TSS.recF with idx j = a[j]-1; aggG1 / aggG2
-- are recF in the exponent (z + sum of lagSpec * point): the transfer from the field to the groups uses only that g2mul / g1mul
-- are Z_r-module actions of a group of prime order r (assumption listed in the evidence).

open Polynomial Finset

namespace TSS

variable {F : Type*} [Field F] [DecidableEq F]

/-- spec func polyEval(a, x, k): Horner-free evaluation, sum over j < k of x^j * a[j] -/
def polyEval (a : ℕ → F) (x : F) : ℕ → F
  | 0 => 0
  | k + 1 => polyEval a x k + x ^ k * a k

/-- spec func lterm(j, i) = j * (j - i)⁻¹ -/
def lterm (j i : F) : F := j * (j - i)⁻¹

/-- spec func lagSpec(a, i, k): product over j < k with a[j] ≠ i of lterm(a[j], i) -/
def lagSpec (a : ℕ → F) (i : F) : ℕ → F
  | 0 => 1
  | k + 1 => if a k = i then lagSpec a i k else lagSpec a i k * lterm (a k) i

/-- spec func recF / aggG1 / aggG2 (in the exponent): z + sum over j < k of lagSpec(a, a[j], n) * s[idx j] -/
def recF (s : ℕ → F) (a : ℕ → F) (idx : ℕ → ℕ) (n : ℕ) : ℕ → F
  | 0 => 0
  | k + 1 => recF s a idx n k + s (idx k) * lagSpec a (a k) n

theorem polyEval_eq_sum (a : ℕ → F) (x : F) (k : ℕ) :
    polyEval a x k = ∑ j ∈ range k, x ^ j * a j := by
  induction k with
  | zero => simp [polyEval]
  | succ k ih => simp [polyEval, ih, Finset.sum_range_succ]

/-- the polynomial whose coefficients are a 0 .. a (k-1) -/
noncomputable def poly (a : ℕ → F) (k : ℕ) : F[X] := ∑ j ∈ range k, C (a j) * X ^ j

theorem polyEval_eq_eval (a : ℕ → F) (x : F) (k : ℕ) : polyEval a x k = (poly a k).eval x := by
  rw [polyEval_eq_sum, poly, eval_finsetSum]
  refine Finset.sum_congr rfl (fun j _ => ?_)
  rw [eval_mul, eval_C, eval_pow, eval_X, mul_comm]

theorem poly_degree_lt (a : ℕ → F) (k : ℕ) : (poly a k).degree < k := by
  unfold poly
  refine lt_of_le_of_lt (degree_sum_le _ _) ?_
  rw [Finset.sup_lt_iff]
  · intro j hj
    refine lt_of_le_of_lt (degree_C_mul_X_pow_le j (a j)) ?_
    exact_mod_cast Finset.mem_range.mp hj
  · exact WithBot.bot_lt_coe k

theorem poly_eval_zero (a : ℕ → F) (k : ℕ) (hk : 0 < k) : (poly a k).eval 0 = a 0 := by
  rw [← polyEval_eq_eval, polyEval_eq_sum]
  rw [Finset.sum_eq_single 0]
  · simp
  · intro j _ hj
    simp [hj]
  · intro h
    exact absurd (Finset.mem_range.mpr hk) h

theorem lagSpec_eq_prod (a : ℕ → F) (i : F) (k : ℕ) :
    lagSpec a i k = ∏ j ∈ (range k).filter (fun j => a j ≠ i), a j / (a j - i) := by
  induction k with
  | zero => simp [lagSpec]
  | succ k ih =>
    rw [lagSpec, Finset.range_add_one, Finset.filter_insert]
    by_cases h : a k = i
    · simp [h, ih]
    · have hk : k ∉ (range k).filter (fun j => a j ≠ i) := by simp
      simp only [h, if_false, ne_eq, not_false_eq_true, if_true]
      rw [Finset.prod_insert hk, ih, lterm, div_eq_mul_inv, mul_comm]

theorem filter_ne_eq_erase (a : ℕ → F) (n m : ℕ) (hm : m ∈ range n) (hinj : Set.InjOn a (range n : Finset ℕ)) :
    (range n).filter (fun j => a j ≠ a m) = (range n).erase m := by
  ext j
  simp only [Finset.mem_filter, Finset.mem_erase, ne_eq]
  constructor
  · rintro ⟨hj, hne⟩
    exact ⟨fun h => hne (by rw [h]), hj⟩
  · rintro ⟨hne, hj⟩
    exact ⟨hj, fun h => hne (hinj (by exact_mod_cast hj) (by exact_mod_cast hm) h)⟩

/-- Lagrange interpolation at zero (Mathlib `Lagrange.eq_interpolate`), in the shape of the code's coefficients. -/
theorem lagrange_at_zero {ι : Type*} [DecidableEq ι]
    (s : Finset ι) (v : ι → F) (hv : Set.InjOn v s) (P : F[X]) (hdeg : P.degree < s.card) :
    ∑ i ∈ s, P.eval (v i) * ∏ j ∈ s.erase i, (v j / (v j - v i)) = P.eval 0 := by
  have h := Lagrange.eq_interpolate hv hdeg
  conv_rhs => rw [h]
  rw [Lagrange.interpolate_apply, eval_finsetSum]
  refine Finset.sum_congr rfl (fun i hi => ?_)
  rw [eval_mul, eval_C]
  congr 1
  unfold Lagrange.basis
  rw [eval_prod]
  refine Finset.prod_congr rfl (fun j hj => ?_)
  have hne : v i ≠ v j := by
    intro hEq
    have hj' := Finset.mem_erase.mp hj
    exact hj'.1 (hv hj'.2 hi hEq.symm)
  unfold Lagrange.basisDivisor
  simp only [eval_mul, eval_C, eval_sub, eval_X]
  have h1 : v i - v j ≠ 0 := sub_ne_zero.mpr hne
  have h2 : v j - v i ≠ 0 := sub_ne_zero.mpr hne.symm
  field_simp
  ring

theorem recF_eq_sum (s : ℕ → F) (a : ℕ → F) (idx : ℕ → ℕ) (n k : ℕ) :
    recF s a idx n k = ∑ j ∈ range k, s (idx j) * lagSpec a (a j) n := by
  induction k with
  | zero => simp [recF]
  | succ k ih => simp [recF, ih, Finset.sum_range_succ]

/-- **Any n ≥ t shares reconstruct.** If the n points a 0 .. a (n-1) are pairwise distinct and every share used is the value
of one polynomial of degree < n at its point, combining them with the code's coefficients gives the value at zero. -/
theorem reconstruct_eq (s : ℕ → F) (a : ℕ → F) (idx : ℕ → ℕ) (n : ℕ) (P : F[X])
    (hinj : Set.InjOn a (range n : Finset ℕ)) (hdeg : P.degree < n)
    (hs : ∀ j, j < n → s (idx j) = P.eval (a j)) :
    recF s a idx n n = P.eval 0 := by
  rw [recF_eq_sum]
  have hcard : P.degree < (range n).card := by simpa using hdeg
  rw [← lagrange_at_zero (range n) a hinj P hcard]
  refine Finset.sum_congr rfl (fun j hj => ?_)
  rw [hs j (Finset.mem_range.mp hj), lagSpec_eq_prod, filter_ne_eq_erase a n j hj hinj]

/-- Shares dealt by `Gen` (share m is polyEval of the coefficients at the point of m) reconstruct the dealt secret, the
constant coefficient, from any n ≥ t of them. -/
theorem dealt_secret_reconstructs (c : ℕ → F) (t : ℕ) (ht : 0 < t) (s : ℕ → F) (a : ℕ → F) (idx : ℕ → ℕ) (n : ℕ)
    (htn : t ≤ n) (hinj : Set.InjOn a (range n : Finset ℕ))
    (hs : ∀ j, j < n → s (idx j) = polyEval c (a j) t) :
    recF s a idx n n = c 0 := by
  rw [← poly_eval_zero c t ht]
  refine reconstruct_eq s a idx n (poly c t) hinj ?_ ?_
  · exact lt_of_lt_of_le (poly_degree_lt c t) (by exact_mod_cast htn)
  · intro j hj
    rw [hs j hj, polyEval_eq_eval]

theorem lagSpec_ne_zero (a : ℕ → F) (n m : ℕ) (hnz : ∀ j, j < n → a j ≠ 0) :
    lagSpec a (a m) n ≠ 0 := by
  rw [lagSpec_eq_prod, Finset.prod_ne_zero_iff]
  intro j hj
  have hj' := Finset.mem_filter.mp hj
  exact div_ne_zero (hnz j (Finset.mem_range.mp hj'.1)) (sub_ne_zero.mpr hj'.2)

/-- **A single value off the polynomial is detected** by every subset that contains it: the combination differs from the
value at zero (which is what every subset of on-polynomial values gives, by `reconstruct_eq`). Points are non-zero. -/
theorem off_polynomial_detected (s : ℕ → F) (a : ℕ → F) (idx : ℕ → ℕ) (n : ℕ) (P : F[X])
    (hinj : Set.InjOn a (range n : Finset ℕ)) (hdeg : P.degree < n) (hnz : ∀ j, j < n → a j ≠ 0)
    (m : ℕ) (hm : m < n) (hoff : s (idx m) ≠ P.eval (a m))
    (hs : ∀ j, j < n → j ≠ m → s (idx j) = P.eval (a j)) :
    recF s a idx n n ≠ P.eval 0 := by
  -- compare with the corrected share vector
  let s' : ℕ → F := fun j => P.eval (a j)
  have hgood : recF s' a id n n = P.eval 0 :=
    reconstruct_eq s' a id n P hinj hdeg (fun j _ => rfl)
  rw [← hgood, recF_eq_sum, recF_eq_sum]
  have hmr : m ∈ range n := Finset.mem_range.mpr hm
  rw [← Finset.add_sum_erase _ _ hmr, ← Finset.add_sum_erase (range n) (fun j => s' (id j) * lagSpec a (a j) n) hmr]
  have hrest : ∑ j ∈ (range n).erase m, s (idx j) * lagSpec a (a j) n
      = ∑ j ∈ (range n).erase m, s' (id j) * lagSpec a (a j) n := by
    refine Finset.sum_congr rfl (fun j hj => ?_)
    have hj' := Finset.mem_erase.mp hj
    simp only [s', id]
    rw [hs j (Finset.mem_range.mp hj'.2) hj'.1]
  rw [hrest]
  intro h
  have h2 := add_right_cancel h
  have h3 := mul_right_cancel₀ (lagSpec_ne_zero a n m hnz) h2
  exact hoff h3

/-! ### Signing in the exponent (C01, signing clause; C09)

G1, G2 and the target group are modules over the scalar field (written additively: the "unity" of the target group is 0);
the pairing is a bilinear map. This is the interpretation of the uninterpreted symbols g1.mul / g2.mul / g1.add / gt.pair2 /
gt.fexp / gt.isunity of the SMT side: `isunity(fexp(pair2(a, b, c, d)))` is `e a b + e c d = 0`. -/

section Signing

variable {G1 G2 T : Type*} [AddCommGroup G1] [Module F G1] [AddCommGroup G2] [Module F G2] [AddCommGroup T] [Module F T]

/-- spec func aggG1(sig, a, n, z, k) = z + sum over j < k of lagSpec(a, a[j], n) * sig[j] (aggG2 is the same in G2) -/
def aggG1 (sig : ℕ → G1) (a : ℕ → F) (n : ℕ) (z : G1) : ℕ → G1
  | 0 => z
  | k + 1 => aggG1 sig a n z k + lagSpec a (a k) n • sig k

theorem aggG1_eq_sum (sig : ℕ → G1) (a : ℕ → F) (n : ℕ) (z : G1) (k : ℕ) :
    aggG1 sig a n z k = z + ∑ j ∈ range k, lagSpec a (a j) n • sig j := by
  induction k with
  | zero => simp [aggG1]
  | succ k ih => simp [aggG1, ih, Finset.sum_range_succ, add_assoc]

/-- **Partial signatures (or public keys) of shares on one polynomial aggregate, under the code's coefficients and starting
from the code's zero `g - g`, to the signature (key) under the value at zero.** -/
theorem aggregate_of_shares (H g : G1) (a : ℕ → F) (n : ℕ) (P : F[X])
    (hinj : Set.InjOn a (range n : Finset ℕ)) (hdeg : P.degree < n)
    (sig : ℕ → G1) (hs : ∀ j, j < n → sig j = P.eval (a j) • H) :
    aggG1 sig a n (g - g) n = P.eval 0 • H := by
  rw [aggG1_eq_sum, sub_self, zero_add]
  have hsum : ∑ j ∈ range n, lagSpec a (a j) n • sig j
      = (∑ j ∈ range n, P.eval (a j) * lagSpec a (a j) n) • H := by
    rw [Finset.sum_smul]
    refine Finset.sum_congr rfl (fun j hj => ?_)
    rw [hs j (Finset.mem_range.mp hj), smul_smul, mul_comm]
  rw [hsum]
  have h := reconstruct_eq (fun j => P.eval (a j)) a id n P hinj hdeg (fun j _ => rfl)
  rw [recF_eq_sum] at h
  simp only [id] at h
  rw [h]

/-- the pairing equation checked by localVerify, with negG2 = (g2 - g2) - g2 as the package initialiser computes it -/
def pairingHolds (e : G2 →ₗ[F] G1 →ₗ[F] T) (g2 pk : G2) (H sig : G1) : Prop :=
  e ((g2 - g2) - g2) sig + e pk H = 0

/-- **A signature made with the secret s verifies under the public key s • g2.** -/
theorem honest_signature_verifies (e : G2 →ₗ[F] G1 →ₗ[F] T) (g2 : G2) (H : G1) (s : F) :
    pairingHolds e g2 (s • g2) H (s • H) := by
  unfold pairingHolds
  simp [sub_self, map_neg, map_smul]

/-- **Any n ≥ t partial signatures from shares of one degree-< t polynomial aggregate to a signature that verifies under the
public key of the polynomial's value at zero** (the threshold public key). -/
theorem threshold_signature_verifies (e : G2 →ₗ[F] G1 →ₗ[F] T) (g2 : G2) (H g : G1) (a : ℕ → F) (n : ℕ) (P : F[X])
    (hinj : Set.InjOn a (range n : Finset ℕ)) (hdeg : P.degree < n)
    (sig : ℕ → G1) (hs : ∀ j, j < n → sig j = P.eval (a j) • H) :
    pairingHolds e g2 (P.eval 0 • g2) H (aggG1 sig a n (g - g) n) := by
  rw [aggregate_of_shares H g a n P hinj hdeg sig hs]
  exact honest_signature_verifies e g2 H (P.eval 0)

end Signing

/-! ### Blind signing by one signer (C08, single-signer clause)

`sumG` transliterates the spec functions sumG1 / sumG2 (z + sum over i < k of s[i] * p[i]). The hypotheses of
`unblind_correct` are the postconditions proved on the Go code: `encrypt` (a[i] = r[i] * g, b[i] = m[i] * h + r[i] * u),
`Blind` (u = z * g, the same h and z go into the secret), `SignBlindSignature` (A = sumG1(a, ys, g - g, n),
B = sumG1(b, ys, x * h, n)), `UnBlind` (hPrime = B + (-z) * A, accepted iff e(g2inv, hPrime) * e(sumG2(Y, m, X, n), h) = 1),
`LocalKeyGen` (X = x * g2, Y[i] = ys[i] * g2) and `neg` (g2inv = (G - G) - g2). -/

section BlindSigning

variable {G1 G2 T : Type*} [AddCommGroup G1] [Module F G1] [AddCommGroup G2] [Module F G2] [AddCommGroup T] [Module F T]

/-- spec func sumG1 / sumG2 -/
def sumG {G : Type*} [AddCommGroup G] [Module F G] (p : ℕ → G) (s : ℕ → F) (z : G) : ℕ → G
  | 0 => z
  | k + 1 => sumG p s z k + s k • p k

theorem sumG_eq_sum {G : Type*} [AddCommGroup G] [Module F G] (p : ℕ → G) (s : ℕ → F) (z : G) (k : ℕ) :
    sumG p s z k = z + ∑ j ∈ range k, s j • p j := by
  induction k with
  | zero => simp [sumG]
  | succ k ih => simp [sumG, ih, Finset.sum_range_succ, add_assoc]

/-- what the client obtains by unblinding the signer's answer: (x + sum of ys[i] * m[i]) * h -/
theorem unblind_value (g h u : G1) (x z : F) (ys ms rs : ℕ → F) (n : ℕ) (a b : ℕ → G1)
    (hu : u = z • g) (ha : ∀ i, i < n → a i = rs i • g) (hb : ∀ i, i < n → b i = ms i • h + rs i • u) :
    sumG b ys (x • h) n + (-z) • sumG a ys (g - g) n = (x + ∑ i ∈ range n, ys i * ms i) • h := by
  rw [sumG_eq_sum, sumG_eq_sum, sub_self, zero_add]
  have hA : ∑ j ∈ range n, ys j • a j = (∑ j ∈ range n, ys j * rs j) • g := by
    rw [Finset.sum_smul]
    refine Finset.sum_congr rfl (fun j hj => ?_)
    rw [ha j (Finset.mem_range.mp hj), smul_smul]
  have hB : ∑ j ∈ range n, ys j • b j
      = (∑ j ∈ range n, ys j * ms j) • h + (z * ∑ j ∈ range n, ys j * rs j) • g := by
    rw [Finset.sum_smul, Finset.mul_sum, Finset.sum_smul, ← Finset.sum_add_distrib]
    refine Finset.sum_congr rfl (fun j hj => ?_)
    rw [hb j (Finset.mem_range.mp hj), hu, smul_add, smul_smul, smul_smul, smul_smul]
    congr 2
    ring
  rw [hA, hB, add_smul, smul_smul]
  have : (-z * ∑ j ∈ range n, ys j * rs j) • g = -((z * ∑ j ∈ range n, ys j * rs j) • g) := by
    rw [neg_mul, neg_smul]
  rw [this]
  abel

/-- **A request built by `Blind`, signed by `SignBlindSignature` with the key (x, ys) and unblinded with the client's secret
is accepted by `UnBlind` under the signer's public key (X, Y) = (x * g2, ys[i] * g2)**, for every message vector, every
randomness, every n. -/
theorem unblind_correct (e : G2 →ₗ[F] G1 →ₗ[F] T) (g h u : G1) (g2 gen2 : G2) (x z : F) (ys ms rs : ℕ → F) (n : ℕ)
    (a b : ℕ → G1) (Y : ℕ → G2)
    (hu : u = z • g) (ha : ∀ i, i < n → a i = rs i • g) (hb : ∀ i, i < n → b i = ms i • h + rs i • u)
    (hY : ∀ i, i < n → Y i = ys i • g2) :
    e ((gen2 - gen2) - g2) (sumG b ys (x • h) n + (-z) • sumG a ys (g - g) n) + e (sumG Y ms (x • g2) n) h = 0 := by
  rw [unblind_value g h u x z ys ms rs n a b hu ha hb, sumG_eq_sum]
  have hE : ∑ j ∈ range n, ms j • Y j = (∑ j ∈ range n, ys j * ms j) • g2 := by
    rw [Finset.sum_smul]
    refine Finset.sum_congr rfl (fun j hj => ?_)
    rw [hY j (Finset.mem_range.mp hj), smul_smul, mul_comm]
  rw [hE, ← add_smul]
  simp [sub_self, map_neg, map_smul]

/-- **The randomised signature that `PoKofSig` puts into a proof of knowledge satisfies the pairing equation that
`SigPoK.Verify` checks**, e(kappa, h^eps) * e(g2inv, h'^eps + nu) = 1, for every randomness eps, delta, whenever the combined
witness is h' = (x + sum ys[i] * m[i]) * h (which `unblind_value` gives for one signer and `aggregate_of_shares` carries to
a signer set). The Schnorr part of the proof (psi) is not covered. -/
theorem pok_pairing_holds (e : G2 →ₗ[F] G1 →ₗ[F] T) (g2 gen2 : G2) (h hPrime : G1) (x δ ε : F) (ys ms : ℕ → F) (n : ℕ)
    (Y : ℕ → G2) (hY : ∀ i, i < n → Y i = ys i • g2)
    (hh : hPrime = (x + ∑ i ∈ range n, ys i * ms i) • h) :
    e (sumG Y ms (x • g2) n + δ • g2) (ε • h) + e ((gen2 - gen2) - g2) (ε • hPrime + δ • (ε • h)) = 0 := by
  rw [sumG_eq_sum]
  have hE : ∑ j ∈ range n, ms j • Y j = (∑ j ∈ range n, ys j * ms j) • g2 := by
    rw [Finset.sum_smul]
    refine Finset.sum_congr rfl (fun j hj => ?_)
    rw [hY j (Finset.mem_range.mp hj), smul_smul, mul_comm]
  rw [hE, hh, ← add_smul, ← add_smul]
  simp only [sub_self, zero_sub, map_neg, map_smul, map_add, LinearMap.neg_apply, LinearMap.smul_apply, smul_smul, LinearMap.add_apply]
  module

/-- **The Schnorr part of the proof of knowledge is accepted**: with the commitments, challenge-dependent responses and
randomised signature that the Go prover is proved to produce (`proveProofOfKnowledgeOfSignatureIsCorrectlyFormed`:
Gamma = mu*g2 + sum gamma[i]*Y[i], Phi = mu*h^eps, x[i] = gamma[i] + e*m[i], y = mu + e*delta; `PoKofSig`:
kappa = X + sum m[i]*Y[i] + delta*g2, nu = delta*h^eps), both equations that `PoKofSignaturePoCorrectForm.Verify` is proved
to check hold, for EVERY challenge e (so in particular for the one both sides compute from the same oracle inputs). -/
theorem schnorr_part_accepted (g2 gen2 X : G2) (heps : G1) (Y : ℕ → G2) (ms γs : ℕ → F) (μ δ e : F) (n : ℕ) :
    -- y*g2 + sum x[i]*Y[i] = Gamma + e*(kappa + ((gen2 - gen2) - X))
    sumG Y (fun i => γs i + e * ms i) ((μ + e * δ) • g2) n
      = sumG Y γs (μ • g2) n + e • ((sumG Y ms X n + δ • g2) + ((gen2 - gen2) - X))
    ∧
    -- y*h^eps = e*nu + Phi
    (μ + e * δ) • heps = e • (δ • heps) + μ • heps := by
  constructor
  · rw [sumG_eq_sum, sumG_eq_sum, sumG_eq_sum]
    have h1 : ∑ j ∈ range n, (γs j + e * ms j) • Y j
        = ∑ j ∈ range n, γs j • Y j + e • ∑ j ∈ range n, ms j • Y j := by
      rw [Finset.smul_sum, ← Finset.sum_add_distrib]
      refine Finset.sum_congr rfl (fun j _ => ?_)
      rw [add_smul, mul_smul]
    rw [h1, sub_self, zero_sub]
    simp only [smul_add, add_smul, mul_smul, smul_neg]
    abel
  · rw [add_smul, mul_smul, add_comm]

/-- **Witnesses of a signer set combine to a witness under the threshold key.** If signer j holds the key
(Px(a j), Py_k(a j)) for polynomials whose combination Px + sum m[k] * Py_k has degree < n (true when each has) and its witness is (Px(a j) + sum m[k] * Py_k(a j)) * h (`unblind_value`),
then combining the witnesses with the code's Lagrange coefficients gives (Px(0) + sum m[k] * Py_k(0)) * h: the form that
`pok_pairing_holds` needs, under the threshold key (Px(0), Py_k(0)). (The Go aggregation in Prover.ProveKnowledgeOfSignature
is not under a functional contract: witnesses are stored by value; that each is combined under its own signer's point is
C09.) -/
theorem threshold_witness (h g : G1) (a : ℕ → F) (n L : ℕ) (Px : F[X]) (Py : ℕ → F[X]) (ms : ℕ → F)
    (hinj : Set.InjOn a (range n : Finset ℕ))
    (hdeg : (Px + ∑ k ∈ range L, C (ms k) * Py k).degree < n)
    (w : ℕ → G1) (hw : ∀ j, j < n → w j = (Px.eval (a j) + ∑ k ∈ range L, ms k * (Py k).eval (a j)) • h) :
    aggG1 w a n (g - g) n = (Px.eval 0 + ∑ k ∈ range L, ms k * (Py k).eval 0) • h := by
  have hQ : ∀ t : F, (Px + ∑ k ∈ range L, C (ms k) * Py k).eval t
      = Px.eval t + ∑ k ∈ range L, ms k * (Py k).eval t := by
    intro t
    simp only [eval_add, eval_finsetSum, eval_mul, eval_C]
  have := aggregate_of_shares h g a n (Px + ∑ k ∈ range L, C (ms k) * Py k) hinj hdeg w
    (fun j hj => by rw [hw j hj, hQ])
  rw [this, hQ]

/-- **The signer accepts the well-formedness proof of an honestly built request**: with the ciphertext of `encrypt`, the
completed commitment of `Blind` and the commitments and responses that `proveBlindingIsWellFormed` is proved to produce
(d[i] = beta[i]*h + alpha[i]*u, f[i] = alpha[i]*g, s = gamma*g0 + sum beta[i]*gs[i], x[i] = alpha[i] + e*r[i],
y[i] = beta[i] + e*m[i], z = gamma + e*rcm), the three families of equations that `BlindCorrectFormProof.Verify` is proved to
accept (`wfOK`) hold, for EVERY challenge e. -/
theorem request_proof_accepted (g g0 h u : G1) (gs : ℕ → G1) (ms rs αs βs : ℕ → F) (rcm γ e : F) (n : ℕ) :
    (∀ i, (αs i + e * rs i) • u + (βs i + e * ms i) • h
        = (βs i • h + αs i • u) + e • (ms i • h + rs i • u)) ∧
    (∀ i, (αs i + e * rs i) • g = αs i • g + e • (rs i • g)) ∧
    e • sumG gs ms (rcm • g0) n + sumG gs βs (γ • g0) n
        = sumG gs (fun i => βs i + e * ms i) ((γ + e * rcm) • g0) n := by
  refine ⟨fun i => ?_, fun i => ?_, ?_⟩
  · simp only [add_smul, mul_smul, smul_add]
    abel
  · simp only [add_smul, mul_smul]
  · rw [sumG_eq_sum, sumG_eq_sum, sumG_eq_sum]
    have h1 : ∑ j ∈ range n, (βs j + e * ms j) • gs j
        = ∑ j ∈ range n, βs j • gs j + e • ∑ j ∈ range n, ms j • gs j := by
      rw [Finset.smul_sum, ← Finset.sum_add_distrib]
      refine Finset.sum_congr rfl (fun j _ => ?_)
      rw [add_smul, mul_smul]
    rw [h1]
    simp only [smul_add, add_smul, mul_smul]
    abel

/-- the completed commitment: (rcm*g0 + sum over the first n-1 components) + mPrime*gs[n-1] is the sum over all n components
of the extended message (one unfolding of sumG) -/
theorem completed_commitment (g0 : G1) (gs : ℕ → G1) (ms : ℕ → F) (rcm : F) (k : ℕ) :
    sumG gs ms (rcm • g0) k + ms k • gs k = sumG gs ms (rcm • g0) (k + 1) := rfl

end BlindSigning

end TSS

#print axioms TSS.dealt_secret_reconstructs
#print axioms TSS.off_polynomial_detected
#print axioms TSS.lagSpec_eq_prod
#print axioms TSS.polyEval_eq_eval
#print axioms TSS.threshold_signature_verifies
#print axioms TSS.aggregate_of_shares
#print axioms TSS.unblind_correct
#print axioms TSS.pok_pairing_holds
#print axioms TSS.schnorr_part_accepted
#print axioms TSS.threshold_witness
#print axioms TSS.request_proof_accepted
