

package main

import (
	"go/types"
	"strings"
	"fmt"
	"os"

	"golang.org/x/tools/go/packages"
	"golang.org/x/tools/go/ssa"
	"golang.org/x/tools/go/ssa/ssautil"
)

func main() {
	cfg := &packages.Config{Mode: packages.LoadSyntax, Dir: os.Args[1], BuildFlags: []string{"-tags=verif"}}
	pkgs, err := packages.Load(cfg, os.Args[2])
	if err != nil {
		panic(err)
	}
	prog, spkgs := ssautil.Packages(pkgs, ssa.NaiveForm|ssa.GlobalDebug)
	prog.Build()
	for _, p := range spkgs {
		for _, name := range os.Args[3:] {
			if f := p.Func(name); f != nil {
				f.WriteTo(os.Stdout)
				for _, af := range f.AnonFuncs {
					af.WriteTo(os.Stdout)
				}
			}
			// methods: "T.name"
			if i := strings.Index(name, "."); i > 0 {
				if tn, ok := p.Members[name[:i]].(*ssa.Type); ok {
					for _, t := range []types.Type{tn.Type(), types.NewPointer(tn.Type())} {
						ms := prog.MethodSets.MethodSet(t)
						for j := 0; j < ms.Len(); j++ {
							if ms.At(j).Obj().Name() == name[i+1:] {
								if f := prog.MethodValue(ms.At(j)); f != nil {
									f.WriteTo(os.Stdout)
								}
							}
						}
					}
				}
			}
		}
	}
	fmt.Println("done")
}
