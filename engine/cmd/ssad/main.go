

package main

import (
	"fmt"
	"os"

	"golang.org/x/tools/go/packages"
	"golang.org/x/tools/go/ssa"
	"golang.org/x/tools/go/ssa/ssautil"
)

func main() {
	cfg := &packages.Config{Mode: packages.LoadSyntax, Dir: os.Args[1], BuildFlags: []string{"-tags=verif"}}
	pkgs, err := packages.Load(cfg, os.Args[2])
	if err != nil {
		panic(err)
	}
	prog, spkgs := ssautil.Packages(pkgs, ssa.NaiveForm|ssa.GlobalDebug)
	prog.Build()
	for _, p := range spkgs {
		for _, name := range os.Args[3:] {
			if f := p.Func(name); f != nil {
				f.WriteTo(os.Stdout)
				for _, af := range f.AnonFuncs {
					af.WriteTo(os.Stdout)
				}
			}
		}
	}
	fmt.Println("done")
}
