package main

// Events (calls through fields, channel operations, map updates), ghost updates, lock sets and monitors.

import (
	"fmt"
	"go/token"
	"go/types"
	"strings"

	"golang.org/x/tools/go/ssa"
)

func (e *Engine) eventGo(st *State, fr *Frame, x *ssa.Go)                                  {}
func (e *Engine) markDone(st *State, ch Val) {
	if c, ok := st.doneChan[ch.S]; ok {
		if st.ctxDone == nil {
			st.ctxDone = map[string]bool{}
		}
		st.ctxDone[c] = true
	}
}

func (e *Engine) eventRecv(st *State, fr *Frame, x *ssa.UnOp, ch Val) { e.markDone(st, ch) }

func (e *Engine) eventSelect(st *State, fr *Frame, x *ssa.Select, idx int) {
	s := x.States[idx]
	if s.Dir == types.RecvOnly {
		e.markDone(st, e.val(st, fr, s.Chan))
	}
}
func (e *Engine) eventClose(st *State, fr *Frame, ch Val, pos token.Pos, ins ssa.Instruction) {}

// eventSend: "on-send <chan expr>(v)" clauses of the function that contains the send.
func (e *Engine) eventSend(st *State, fr *Frame, x *ssa.Send, v Val) {
	ct := e.contractFor(fr.fn)
	if ct == nil {
		return
	}
	target := e.exprText(fr.fn, x.Chan)
	for _, ev := range ct.Events {
		if ev.Kind != "on-send" || ev.Target != target {
			continue
		}
		env := e.eventEnv(st, fr, ev, []Val{v})
		e.runEvent(st, fr, ev, env, "send("+target+")", x.Pos(), x)
	}
}

// callbackEvent: "on-call <callee expr>(params)" clauses.
func (e *Engine) callbackEvent(st *State, fr *Frame, c *ssa.CallCommon, fn Val, args []Val, pos token.Pos, ins ssa.Instruction) {
	ct := e.contractFor(fr.fn)
	if ct == nil {
		return
	}
	target := e.exprText(fr.fn, c.Value)
	if c.IsInvoke() {
		target += "." + c.Method.Name()
	}
	for _, ev := range ct.Events {
		if ev.Kind != "on-call" || ev.Target != target {
			continue
		}
		env := e.eventEnv(st, fr, ev, args)
		e.runEvent(st, fr, ev, env, "call("+target+")", pos, ins)
	}
}

func (e *Engine) siteHook(st *State, fr *Frame, kind string, ins ssa.Instruction, vals []Val) {
	ct := e.contractFor(fr.fn)
	if ct == nil {
		return
	}
	for _, ev := range ct.Events {
		if ev.Kind != "at" {
			continue
		}
		if kind == "mapupdate" {
			mu := ins.(*ssa.MapUpdate)
			want := "mapupdate(" + e.exprText(fr.fn, mu.Map) + ")"
			if ev.Target != want {
				continue
			}
			ev2 := *ev
			ev2.Params = []string{"map$", "key$", "value$"}
			env := e.eventEnv(st, fr, &ev2, vals)
			e.runEvent(st, fr, ev, env, want, ins.Pos(), ins)
		}
	}
}

// entryEvents runs the "on-entry" clauses of a function's contract (unit entry or inlined call).
func (e *Engine) entryEvents(st *State, fr *Frame) {
	ct := e.contractFor(fr.fn)
	if ct == nil {
		return
	}
	for _, ev := range ct.Events {
		if ev.Kind != "on-entry" {
			continue
		}
		env := e.eventEnv(st, fr, ev, nil)
		e.runEvent(st, fr, ev, env, "entry", fr.fn.Pos(), nil)
	}
}

// storeHook: "at store <lvalue text>:" clauses.
func (e *Engine) storeHook(st *State, fr *Frame, x *ssa.Store, v Val) {
	ct := e.contractFor(fr.fn)
	if ct == nil {
		return
	}
	var target string
	for _, ev := range ct.Events {
		if ev.Kind != "at" || !strings.HasPrefix(ev.Target, "store ") {
			continue
		}
		if target == "" {
			target = "store " + e.exprText(fr.fn, x.Addr)
		}
		if ev.Target != target {
			continue
		}
		ev2 := *ev
		ev2.Params = []string{"value$"}
		env := e.eventEnv(st, fr, &ev2, []Val{v})
		e.runEvent(st, fr, ev, env, target, x.Pos(), x)
	}
}

func (e *Engine) eventEnv(st *State, fr *Frame, ev *EventClause, args []Val) *Env {
	env := &Env{eng: e, st: st, pkg: e.pkgOf(fr.fn), vars: map[string]Val{}, oldSnap: st.unitOld, hasOld: true, where: "event " + ev.Target + " in " + funcDisplayName(fr.fn)}
	e.localsEnv(st, fr, env)
	if st.unit.ghostVars != nil {
		for k, v := range st.unit.ghostVars {
			env.vars[k] = v
		}
	}
	for k, v := range st.gvars {
		env.vars[k] = v
	}
	for i, p := range ev.Params {
		if i < len(args) && p != "_" && p != "" {
			env.vars[p] = args[i]
		}
	}
	return env
}

func (e *Engine) runEvent(st *State, fr *Frame, ev *EventClause, env *Env, what string, pos token.Pos, ins ssa.Instruction) {
	ev.Fired++
	for _, u := range ev.Uses {
		// only instances of built-in, valid lemmas may be assumed
		if u.Expr.Op != "call" || !builtinLemmas[u.Expr.Name] {
			env.errf("'use' accepts built-in lemma instances only: %s", u.Text)
			continue
		}
		// a lemma call: premises are proof obligations, the conclusion is then assumed
		env.lemmaPrem = nil
		concl := env.evalBool(u.Expr)
		for j, p := range env.lemmaPrem {
			name := fmt.Sprintf("%s#event[%s].use[%s].premise%d", funcDisplayName(fr.fn), what, u.Expr.Name, j)
			if fr.fn != st.unit.Fn {
				name = st.unit.Name + ">" + name
			}
			st.check("lemma-premise", name, p, pos)
		}
		st.assume(concl)
	}
	for i, a := range ev.Asserts {
		nm := a.Name
		if nm == "" {
			nm = fmt.Sprintf("%d", i)
		}
		name := fmt.Sprintf("%s#event[%s].%s", funcDisplayName(fr.fn), what, nm)
		if fr.fn != st.unit.Fn {
			name = st.unit.Name + ">" + name
		}
		st.check("event", name, env.evalBool(a.Expr), pos)
	}
	for _, g := range ev.Ghost {
		e.ghostAssign(st, env, g)
	}
}

// ghostAssign: lhs is x.g  or  x.g[k]  or  x.g[k][j]
func (e *Engine) ghostAssign(st *State, env *Env, g GhostUpdate) {
	rhs := env.eval(g.RHS)
	if g.LHS.Op == "id" {
		if old, ok := st.gvars[g.LHS.Name]; ok {
			st.gvars[g.LHS.Name] = Val{S: env.coerce(rhs, old.T).S, T: old.T}
			if st.writes != nil {
				st.writes["$gvar:"+g.LHS.Name] = true // a loop (or callback) that updates a ghost variable: havocked at the cut
			}
			return
		}
	}
	var idx []*SExpr
	lhs := g.LHS
	for lhs.Op == "index" {
		idx = append([]*SExpr{lhs.Args[1]}, idx...)
		lhs = lhs.Args[0]
	}
	if lhs.Op != "sel" {
		env.errf("ghost assignment target must be a ghost field: %s", g.Text)
		return
	}
	x := env.eval(lhs.Args[0])
	ts := e.typeSpecFor(deref(x.T))
	if ts == nil {
		env.errf("no ghost fields declared for %s", x.T)
		return
	}
	for _, gf := range ts.Ghost {
		if gf.Name != lhs.Name {
			continue
		}
		gt := e.ghostType(ts, gf)
		hn := "GF!" + ts.Name + "!" + gf.Name
		hs := fmt.Sprintf("(Array Int %s)", gt.sort)
		h := st.heap(hn, hs)
		cur := sel(h, x.S)
		// nested functional update
		var upd func(base string, t types.Type, ix []*SExpr) string
		upd = func(base string, t types.Type, ix []*SExpr) string {
			if len(ix) == 0 {
				return env.coerce(rhs, t).S
			}
			gm, ok := t.(*ghostMapType)
			if !ok {
				env.errf("too many indices in %s", g.Text)
				return base
			}
			k := env.coerce(env.eval(ix[0]), gm.key)
			return store(base, k.S, upd(sel(base, k.S), gm.elem, ix[1:]))
		}
		st.setHeap(hn, hs, store(h, x.S, upd(cur, gt.t, idx)))
		return
	}
	env.errf("unknown ghost field %s", lhs.Name)
}

// exprText renders the SSA value as the Go expression it came from (field chains rooted at locals/params).
func (e *Engine) exprText(fn *ssa.Function, v ssa.Value) string {
	switch x := v.(type) {
	case *ssa.Parameter:
		return x.Name()
	case *ssa.FreeVar:
		return x.Name()
	case *ssa.Alloc:
		return x.Comment
	case *ssa.UnOp:
		if x.Op == token.MUL {
			return e.exprText(fn, x.X)
		}
	case *ssa.FieldAddr:
		s := deref(x.X.Type()).Underlying().(*types.Struct)
		return e.exprText(fn, x.X) + "." + s.Field(x.Field).Name()
	case *ssa.Field:
		s := x.X.Type().Underlying().(*types.Struct)
		return e.exprText(fn, x.X) + "." + s.Field(x.Field).Name()
	case *ssa.Global:
		return x.Name()
	case *ssa.Function:
		return x.Name()
	case *ssa.MakeClosure:
		return x.Fn.Name()
	case *ssa.ChangeType:
		return e.exprText(fn, x.X)
	case *ssa.ChangeInterface:
		return e.exprText(fn, x.X)
	case *ssa.Extract:
		return e.exprText(fn, x.Tuple) + "#" + fmt.Sprint(x.Index)
	case *ssa.Lookup:
		return e.exprText(fn, x.X) + "[...]"
	case *ssa.Call:
		return "call"
	}
	return strings.TrimSpace(v.Name())
}

// callIfaceContract: an interface method with a declared contract ("func Message.Ack").
func (e *Engine) callIfaceContract(st *State, fr *Frame, c *ssa.CallCommon, ct *Contract, recv Val, args []Val, resT types.Type, pos token.Pos, ins ssa.Instruction) Val {
	env := &Env{eng: e, st: st, pkg: e.pkgOf(fr.fn), vars: map[string]Val{"this": recv}, where: "interface contract " + ct.Target}
	if n := namedOf(c.Value.Type()); n != nil && n.Obj().Pkg() != nil {
		if p := e.typesPkg(n.Obj().Pkg().Path()); p != nil {
			env.pkg = p
		}
	}
	sig := c.Method.Type().(*types.Signature)
	for i := 0; i < sig.Params().Len() && i < len(args); i++ {
		if n := sig.Params().At(i).Name(); n != "" {
			env.vars[n] = args[i]
		}
	}
	for i, rq := range ct.Requires {
		name := e.siteName(st, fr, fmt.Sprintf("requires@%s[%d]", ct.Target, i), pos, ins)
		st.check("requires", name, env.evalBool(rq.Expr), pos)
	}
	snap := make(map[string]string, len(st.heaps))
	for k, v := range st.heaps {
		snap[k] = v
	}
	st.bumpFrontier()
	e.havocModifies(st, env, ct)
	res := e.freshResult(st, "res_"+c.Method.Name(), sig.Results())
	post := &Env{eng: e, st: st, pkg: env.pkg, vars: env.vars, oldSnap: snap, hasOld: true, where: "ensures of " + ct.Target}
	rs := sig.Results()
	post.vars["result"] = res
	for i := 0; i < rs.Len(); i++ {
		if n := rs.At(i).Name(); n != "" && n != "_" {
			if rs.Len() == 1 {
				post.vars[n] = res
			} else if i < len(res.Tup) {
				post.vars[n] = res.Tup[i]
			}
		}
	}
	for _, en := range ct.Ensures {
		st.assume(post.evalBool(en.Expr))
	}
	return res
}

var builtinLemmas = map[string]bool{"subsetCardEq": true, "distinctCard": true}

// specBuiltin: functions available in contracts beyond Go's.
func (e *Engine) specBuiltin(env *Env, name string, ex *SExpr) (Val, bool) {
	arg := func(i int) Val { return env.eval(ex.Args[i]) }
	switch name {
	case "sha256":
		// sha256(b): the SHA-256 digest of the contents of b as a string (uninterpreted, deterministic)
		b := arg(0)
		c := env.content(b)
		reg.declareFun("lib!digest", []string{"Str", "Str"}, "Str")
		return Val{S: fmt.Sprintf("(lib!digest %s %s)", strLit("sha256"), c), T: tString}, true
	case "was":
		// was(k, m): the current value k was a key of map m in the pre-state
		if !env.hasOld {
			env.errf("was() needs a pre-state")
			return Val{}, false
		}
		k := arg(0)
		n := env.child()
		n.snap = env.oldSnap
		if n.snap == nil {
			n.snap = map[string]string{}
		}
		m := n.eval(ex.Args[1])
		mt, ok := m.T.Underlying().(*types.Map)
		if !ok {
			env.errf("was() needs a map")
			return Val{}, false
		}
		dn, _, ds, _, _ := mapHeapNames(mt)
		k = env.coerce(k, mt.Key())
		return Val{S: and(not(eq(m.S, "0")), sel(sel(n.heap(dn, ds), m.S), k.S)), T: tBool}, true
	case "done":
		// done(ctx): a receive from ctx.Done() has succeeded on this path
		c := arg(0)
		if env.st != nil && env.st.ctxDone[c.S] {
			return Val{S: "true", T: tBool}, true
		}
		if env.doneSym != nil {
			// postcondition of a callee, evaluated at a call site: whether the callee saw the context expire is a fresh
			// boolean; the caller's path is split on it after the call
			if s, ok := env.doneSym[c.S]; ok {
				return Val{S: s, T: tBool}, true
			}
			s := env.st.freshConst("calleeDone", "Bool")
			env.doneSym[c.S] = s
			return Val{S: s, T: tBool}, true
		}
		return Val{S: "false", T: tBool}, true
	case "fresh":
		// fresh(x): the reference x was allocated during the call (it is above the allocation frontier of the pre-state)
		if !env.hasOld {
			env.errf("fresh() needs a pre-state")
			return Val{}, false
		}
		x := arg(0)
		a0, ok := env.oldSnap["$alloc"]
		if !ok {
			a0 = env.st.init["$alloc"]
		}
		ref := x.S
		if _, isSlice := x.T.Underlying().(*types.Slice); isSlice {
			ref = slRef(x.S)
		}
		return Val{S: fmt.Sprintf("(> %s %s)", ref, a0), T: tBool}, true
	case "visited":
		// visited(m): keys already yielded by the (innermost active) range loop over map m
		m := arg(0)
		for _, hn := range sortedKeys(env.st.heaps) {
			if strings.HasPrefix(hn, "IT!") && iterMapTerm[hn] == m.S {
				kt := iterKeyType[hn]
				return Val{S: env.heap(hn, fmt.Sprintf("(Array %s Bool)", sortOf(kt))), T: &ghostMapType{key: kt, elem: tBool}}, true
			}
		}
		env.errf("visited(): no active range loop over %s", ex.Args[0])
		return Val{}, false
	case "elems":
		// elems(s, n): the set of the first n elements of slice s (ghost set); recursive definition over n
		if env.st == nil {
			return Val{}, false
		}
		sv := arg(0)
		n := arg(1)
		if strings.Contains(sv.S, "q!") {
			env.errf("elems(): the slice may not depend on a quantified variable")
			return Val{}, false
		}
		slt, ok := sv.T.Underlying().(*types.Slice)
		if !ok || (sortOf(slt.Elem()) != "Int" && sortOf(slt.Elem()) != "Str") {
			env.errf("elems() needs a slice of integers or strings")
			return Val{}, false
		}
		es := sortOf(slt.Elem())
		fn, fidx := "elems!"+es, "elemsIdx!"+es
		hn, hs := elemHeapName(slt.Elem())
		row := sel(env.heap(hn, hs), slRef(sv.S))
		off := slOff(sv.S)
		rowSort, setSort := fmt.Sprintf("(Array Int %s)", es), fmt.Sprintf("(Array %s Bool)", es)
		reg.declareFun(fn, []string{rowSort, "Int", "Int"}, setSort)
		ckey := row + "|" + off
		rn, seen := env.st.elemsDone[ckey]
		if !seen {
			rn = env.st.freshConst("elemsrow", rowSort)
			env.st.assume(eq(rn, row))
			env.st.assume(fmt.Sprintf("(= (%s %s %s 0) ((as const %s) false))", fn, rn, off, setSort))
			// elems(s, n) is the set of the first n elements: characterised by the element-set lemma (valid by induction on n for
			// the recursive definition elems(s, n) = elems(s, n-1) + {s[n-1]}); the witness index is a Skolem function. The
			// recursive definition itself is not given to the solver (it is a matching loop).
			reg.declareFun(fidx, []string{rowSort, "Int", "Int", es}, "Int")
			e.assumptions["element-set lemma (induction on n, not machine-checked): x in elems(s, n) <=> some index i < n has s[i] == x"] = true
			env.st.assume(fmt.Sprintf("(forall ((n!e Int) (x!e %s)) (! (=> (select (%s %s %s n!e) x!e) (and (<= 0 (%s %s %s n!e x!e)) (< (%s %s %s n!e x!e) n!e) (= (select %s %s) x!e))) :pattern ((select (%s %s %s n!e) x!e))))",
				es, fn, rn, off, fidx, rn, off, fidx, rn, off, rn, ix(off, fmt.Sprintf("(%s %s %s n!e x!e)", fidx, rn, off)), fn, rn, off))
			env.st.assume(fmt.Sprintf("(forall ((n!e Int) (i!e Int)) (! (=> (and (<= 0 i!e) (< i!e n!e)) (select (%s %s %s n!e) (select %s %s))) :pattern ((%s %s %s n!e) (select %s %s))))",
				fn, rn, off, rn, ix(off, "i!e"), fn, rn, off, rn, ix(off, "i!e")))
			nd := make(map[string]string, len(env.st.elemsDone)+1)
			for k, v := range env.st.elemsDone {
				nd[k] = v
			}
			nd[ckey] = rn
			env.st.elemsDone = nd
		}
		return Val{S: fmt.Sprintf("(%s %s %s %s)", fn, rn, off, n.S), T: &ghostMapType{key: slt.Elem(), elem: tBool}}, true
	case "wraps":
		// wraps(i, v): the interface value i holds exactly the value v (same dynamic type, same payload)
		i, v := arg(0), arg(1)
		if _, ok := i.T.Underlying().(*types.Interface); !ok || env.st == nil {
			env.errf("wraps() needs an interface value and a concrete value: %s", ex)
			return Val{}, false
		}
		w := e.makeInterface(env.st, v, i.T)
		return Val{S: eq(i.S, w.S), T: tBool}, true
	case "allocated":
		// allocated(x): the reference (or the backing array of the slice) x lies below the current allocation frontier;
		// true of every reference a program can hold, useful as an explicit loop invariant for values kept in fields
		x := arg(0)
		ref := x.S
		if _, isSlice := x.T.Underlying().(*types.Slice); isSlice {
			ref = slRef(x.S)
		}
		return Val{S: fmt.Sprintf("(<= %s %s)", ref, env.heap("$alloc", "Int")), T: tBool}, true
	case "sameArray":
		// sameArray(a, b): two slices share their backing array
		a, b := arg(0), arg(1)
		return Val{S: eq(slRef(a.S), slRef(b.S)), T: tBool}, true
	case "same":
		// same(a, b): two slices have the same header (backing array, offset, length)
		a, b := arg(0), arg(1)
		return Val{S: and(eq(slRef(a.S), slRef(b.S)), eq(slOff(a.S), slOff(b.S)), eq(slLen(a.S), slLen(b.S))), T: tBool}, true
	case "ite":
		if len(ex.Args) != 3 {
			return Val{}, false
		}
		c := env.evalBool(ex.Args[0])
		a, b := arg(1), arg(2)
		if isUntyped(a.T) && !isUntyped(b.T) {
			a = env.coerce(a, b.T)
		} else if isUntyped(b.T) && !isUntyped(a.T) {
			b = env.coerce(b, a.T)
		}
		return Val{S: ite(c, a.S, b.S), T: a.T}, true
	case "keys":
		// keys(m): the key set of a map as a ghost set
		m := arg(0)
		mt, ok := m.T.Underlying().(*types.Map)
		if !ok {
			env.errf("keys() needs a map")
			return Val{}, false
		}
		dn, _, ds, _, ks := mapHeapNames(mt)
		dom := sel(env.heap(dn, ds), m.S)
		empty := fmt.Sprintf("((as const (Array %s Bool)) false)", ks)
		return Val{S: ite(eq(m.S, "0"), empty, dom), T: &ghostMapType{key: mt.Key(), elem: tBool}}, true
	case "without":
		s := arg(0)
		gs, ok := s.T.(*ghostMapType)
		if !ok {
			env.errf("without() needs a ghost set")
			return Val{}, false
		}
		k := env.coerce(arg(1), gs.key)
		r := store(s.S, k.S, "false")
		if env.quant == 0 && env.st != nil {
			card := cardFun(sortOf(gs.key))
			w := env.st.freshConst("without", sortOf(s.T))
			env.st.assume(eq(w, r))
			env.st.assume(fmt.Sprintf("(= (%s %s) (- (%s %s) (ite (select %s %s) 1 0)))", card, w, card, s.S, s.S, k.S))
			// membership in the original set is a trigger for membership in the difference
			env.st.assume(fmt.Sprintf("(forall ((k!w %s)) (! (= (select %s k!w) (and (select %s k!w) (not (= k!w %s)))) :pattern ((select %s k!w))))", sortOf(gs.key), w, s.S, k.S, s.S))
			r = w
		}
		return Val{S: r, T: s.T}, true
	case "card":
		s := arg(0)
		if gs, ok := s.T.(*ghostMapType); ok {
			card := cardFun(sortOf(gs.key))
			if env.quant == 0 && env.st != nil {
				env.st.assume(fmt.Sprintf("(>= (%s %s) 0)", card, s.S))
			}
			return Val{S: fmt.Sprintf("(%s %s)", card, s.S), T: tInt}, true
		}
		return Val{}, false
	case "distinctCard":
		// valid: a list of pairwise distinct elements has as many distinct elements as its length
		// (Finset.card_image_of_injective); premise: pairwise distinct, conclusion: card(elems(s, len(s))) == len(s)
		sv := arg(0)
		slt, ok := sv.T.Underlying().(*types.Slice)
		if !ok || sortOf(slt.Elem()) != "Int" || env.st == nil {
			env.errf("distinctCard needs a slice of integers")
			return Val{}, false
		}
		hn, hs := elemHeapName(slt.Elem())
		row := sel(env.heap(hn, hs), slRef(sv.S))
		off, ln := slOff(sv.S), slLen(sv.S)
		el, _ := e.specBuiltin(env, "elems", &SExpr{Op: "call", Name: "elems", Args: []*SExpr{ex.Args[0], {Op: "call", Name: "len", Args: []*SExpr{ex.Args[0]}}}})
		e.assumptions["finite-set fact (Finset.card_image_of_injective): pairwise distinct elements imply card(elems(s)) = len(s), used as a lemma whose premise is proved at the call"] = true
		env.lemmaPrem = append(env.lemmaPrem, fmt.Sprintf("(forall ((a!d Int) (b!d Int)) (=> (and (<= 0 a!d) (< a!d b!d) (< b!d %s)) (not (= (select %s %s) (select %s %s)))))", ln, row, ix(off, "a!d"), row, ix(off, "b!d")))
		return Val{S: fmt.Sprintf("(= (%s %s) %s)", cardFun("Int"), el.S, ln), T: tBool}, true
	case "subsetCardEq":
		// valid for finite sets: A subset of B and |A| >= |B|  ==>  A == B   (Finset.eq_of_subset_of_card_le)
		a, b := arg(0), arg(1)
		ga, ok1 := a.T.(*ghostMapType)
		_, ok2 := b.T.(*ghostMapType)
		if !ok1 || !ok2 || sortOf(a.T) != sortOf(b.T) {
			env.errf("subsetCardEq needs two sets of the same type")
			return Val{}, false
		}
		ks := sortOf(ga.key)
		card := cardFun(ks)
		if env.st != nil && env.quant == 0 {
			// name the two sets so that the patterns below are plain selects
			na := env.st.freshConst("setA", sortOf(a.T))
			nb := env.st.freshConst("setB", sortOf(b.T))
			env.st.assume(eq(na, a.S))
			env.st.assume(eq(nb, b.S))
			a.S, b.S = na, nb
		}
		e.assumptions["finite-set fact (Finset.eq_of_subset_of_card_le): A subset B and |A| >= |B| imply A = B, used as a lemma instance"] = true
		env.lemmaPrem = append(env.lemmaPrem,
			fmt.Sprintf("(forall ((k!s %s)) (! (=> (select %s k!s) (select %s k!s)) :pattern ((select %s k!s))))", ks, a.S, b.S, a.S),
			fmt.Sprintf("(>= (%s %s) (%s %s))", card, a.S, card, b.S))
		f := fmt.Sprintf("(forall ((k!t %s)) (! (= (select %s k!t) (select %s k!t)) :pattern ((select %s k!t)) :pattern ((select %s k!t))))",
			ks, a.S, b.S, b.S, a.S)
		return Val{S: f, T: tBool}, true
	}
	return e.netBuiltin(env, name, ex)
}

// returnHook: "at return:" clauses of the function that returns (locals and results visible).
func (e *Engine) returnHook(st *State, fr *Frame, results []Val, pos token.Pos, ins ssa.Instruction) {
	ct := e.contractFor(fr.fn)
	if ct == nil {
		return
	}
	for _, ev := range ct.Events {
		if ev.Kind != "at" || ev.Target != "return" {
			continue
		}
		env := e.eventEnv(st, fr, ev, nil)
		var res Val
		switch len(results) {
		case 0:
		case 1:
			res = results[0]
		default:
			res = Val{T: fr.fn.Signature.Results(), Tup: results}
		}
		e.bindResults(env, fr.fn, res)
		e.runEvent(st, fr, ev, env, "return", pos, ins)
	}
}

