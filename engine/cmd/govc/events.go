package main

// Events (calls through fields, channel operations, map updates), ghost updates, lock sets and monitors.

import (
	"fmt"
	"go/token"
	"go/types"
	"strings"

	"golang.org/x/tools/go/ssa"
)

func (e *Engine) eventGo(st *State, fr *Frame, x *ssa.Go)                                  {}
func (e *Engine) eventRecv(st *State, fr *Frame, x *ssa.UnOp, ch Val)                      {}
func (e *Engine) eventSelect(st *State, fr *Frame, x *ssa.Select, idx int)                 {}
func (e *Engine) eventClose(st *State, fr *Frame, ch Val, pos token.Pos, ins ssa.Instruction) {}

// eventSend: "on-send <chan expr>(v)" clauses of the function that contains the send.
func (e *Engine) eventSend(st *State, fr *Frame, x *ssa.Send, v Val) {
	ct := e.contractFor(fr.fn)
	if ct == nil {
		return
	}
	target := e.exprText(fr.fn, x.Chan)
	for _, ev := range ct.Events {
		if ev.Kind != "on-send" || ev.Target != target {
			continue
		}
		env := e.eventEnv(st, fr, ev, []Val{v})
		e.runEvent(st, fr, ev, env, "send("+target+")", x.Pos(), x)
	}
}

// callbackEvent: "on-call <callee expr>(params)" clauses.
func (e *Engine) callbackEvent(st *State, fr *Frame, c *ssa.CallCommon, fn Val, args []Val, pos token.Pos, ins ssa.Instruction) {
	ct := e.contractFor(fr.fn)
	if ct == nil {
		return
	}
	target := e.exprText(fr.fn, c.Value)
	if c.IsInvoke() {
		target += "." + c.Method.Name()
	}
	for _, ev := range ct.Events {
		if ev.Kind != "on-call" || ev.Target != target {
			continue
		}
		env := e.eventEnv(st, fr, ev, args)
		e.runEvent(st, fr, ev, env, "call("+target+")", pos, ins)
	}
}

func (e *Engine) siteHook(st *State, fr *Frame, kind string, ins ssa.Instruction, vals []Val) {
	ct := e.contractFor(fr.fn)
	if ct == nil {
		return
	}
	for _, ev := range ct.Events {
		if ev.Kind != "at" {
			continue
		}
		if kind == "mapupdate" {
			mu := ins.(*ssa.MapUpdate)
			want := "mapupdate(" + e.exprText(fr.fn, mu.Map) + ")"
			if ev.Target != want {
				continue
			}
			ev2 := *ev
			ev2.Params = []string{"map$", "key$", "value$"}
			env := e.eventEnv(st, fr, &ev2, vals)
			e.runEvent(st, fr, ev, env, want, ins.Pos(), ins)
		}
	}
}

func (e *Engine) eventEnv(st *State, fr *Frame, ev *EventClause, args []Val) *Env {
	env := &Env{eng: e, st: st, pkg: e.pkgOf(fr.fn), vars: map[string]Val{}, oldSnap: st.unitOld, hasOld: true, where: "event " + ev.Target + " in " + funcDisplayName(fr.fn)}
	e.localsEnv(st, fr, env)
	if st.unit.ghostVars != nil && fr.fn == st.unit.Fn {
		for k, v := range st.unit.ghostVars {
			env.vars[k] = v
		}
	}
	for i, p := range ev.Params {
		if i < len(args) && p != "_" && p != "" {
			env.vars[p] = args[i]
		}
	}
	return env
}

func (e *Engine) runEvent(st *State, fr *Frame, ev *EventClause, env *Env, what string, pos token.Pos, ins ssa.Instruction) {
	for i, a := range ev.Asserts {
		nm := a.Name
		if nm == "" {
			nm = fmt.Sprintf("%d", i)
		}
		name := fmt.Sprintf("%s#event[%s].%s", funcDisplayName(fr.fn), what, nm)
		if fr.fn != st.unit.Fn {
			name = st.unit.Name + ">" + name
		}
		st.check("event", name, env.evalBool(a.Expr), pos)
	}
	for _, g := range ev.Ghost {
		e.ghostAssign(st, env, g)
	}
}

// ghostAssign: lhs is x.g  or  x.g[k]  or  x.g[k][j]
func (e *Engine) ghostAssign(st *State, env *Env, g GhostUpdate) {
	rhs := env.eval(g.RHS)
	var idx []*SExpr
	lhs := g.LHS
	for lhs.Op == "index" {
		idx = append([]*SExpr{lhs.Args[1]}, idx...)
		lhs = lhs.Args[0]
	}
	if lhs.Op != "sel" {
		env.errf("ghost assignment target must be a ghost field: %s", g.Text)
		return
	}
	x := env.eval(lhs.Args[0])
	ts := e.typeSpecFor(deref(x.T))
	if ts == nil {
		env.errf("no ghost fields declared for %s", x.T)
		return
	}
	for _, gf := range ts.Ghost {
		if gf.Name != lhs.Name {
			continue
		}
		gt := e.ghostType(ts, gf)
		hn := "GF!" + ts.Name + "!" + gf.Name
		hs := fmt.Sprintf("(Array Int %s)", gt.sort)
		h := st.heap(hn, hs)
		cur := sel(h, x.S)
		// nested functional update
		var upd func(base string, t types.Type, ix []*SExpr) string
		upd = func(base string, t types.Type, ix []*SExpr) string {
			if len(ix) == 0 {
				return env.coerce(rhs, t).S
			}
			gm, ok := t.(*ghostMapType)
			if !ok {
				env.errf("too many indices in %s", g.Text)
				return base
			}
			k := env.coerce(env.eval(ix[0]), gm.key)
			return store(base, k.S, upd(sel(base, k.S), gm.elem, ix[1:]))
		}
		st.setHeap(hn, hs, store(h, x.S, upd(cur, gt.t, idx)))
		return
	}
	env.errf("unknown ghost field %s", lhs.Name)
}

// exprText renders the SSA value as the Go expression it came from (field chains rooted at locals/params).
func (e *Engine) exprText(fn *ssa.Function, v ssa.Value) string {
	switch x := v.(type) {
	case *ssa.Parameter:
		return x.Name()
	case *ssa.FreeVar:
		return x.Name()
	case *ssa.Alloc:
		return x.Comment
	case *ssa.UnOp:
		if x.Op == token.MUL {
			return e.exprText(fn, x.X)
		}
	case *ssa.FieldAddr:
		s := deref(x.X.Type()).Underlying().(*types.Struct)
		return e.exprText(fn, x.X) + "." + s.Field(x.Field).Name()
	case *ssa.Field:
		s := x.X.Type().Underlying().(*types.Struct)
		return e.exprText(fn, x.X) + "." + s.Field(x.Field).Name()
	case *ssa.Global:
		return x.Name()
	case *ssa.Function:
		return x.Name()
	case *ssa.MakeClosure:
		return x.Fn.Name()
	case *ssa.ChangeType:
		return e.exprText(fn, x.X)
	case *ssa.ChangeInterface:
		return e.exprText(fn, x.X)
	case *ssa.Extract:
		return e.exprText(fn, x.Tuple) + "#" + fmt.Sprint(x.Index)
	case *ssa.Lookup:
		return e.exprText(fn, x.X) + "[...]"
	case *ssa.Call:
		return "call"
	}
	return strings.TrimSpace(v.Name())
}

// callIfaceContract: an interface method with a declared contract ("func Message.Ack").
func (e *Engine) callIfaceContract(st *State, fr *Frame, c *ssa.CallCommon, ct *Contract, recv Val, args []Val, resT types.Type, pos token.Pos, ins ssa.Instruction) Val {
	env := &Env{eng: e, st: st, pkg: e.pkgOf(fr.fn), vars: map[string]Val{"this": recv}, where: "interface contract " + ct.Target}
	if n := namedOf(c.Value.Type()); n != nil && n.Obj().Pkg() != nil {
		if p := e.typesPkg(n.Obj().Pkg().Path()); p != nil {
			env.pkg = p
		}
	}
	sig := c.Method.Type().(*types.Signature)
	for i := 0; i < sig.Params().Len() && i < len(args); i++ {
		if n := sig.Params().At(i).Name(); n != "" {
			env.vars[n] = args[i]
		}
	}
	for i, rq := range ct.Requires {
		name := e.siteName(st, fr, fmt.Sprintf("requires@%s[%d]", ct.Target, i), pos, ins)
		st.check("requires", name, env.evalBool(rq.Expr), pos)
	}
	snap := make(map[string]string, len(st.heaps))
	for k, v := range st.heaps {
		snap[k] = v
	}
	e.havocModifies(st, env, ct)
	res := e.freshResult(st, "res_"+c.Method.Name(), sig.Results())
	post := &Env{eng: e, st: st, pkg: env.pkg, vars: env.vars, oldSnap: snap, hasOld: true, where: "ensures of " + ct.Target}
	rs := sig.Results()
	post.vars["result"] = res
	for i := 0; i < rs.Len(); i++ {
		if n := rs.At(i).Name(); n != "" && n != "_" {
			if rs.Len() == 1 {
				post.vars[n] = res
			} else if i < len(res.Tup) {
				post.vars[n] = res.Tup[i]
			}
		}
	}
	for _, en := range ct.Ensures {
		st.assume(post.evalBool(en.Expr))
	}
	return res
}

func (e *Engine) specBuiltin(env *Env, name string, ex *SExpr) (Val, bool) {
	return Val{}, false
}

func (e *Engine) streamRead(st *State, fr *Frame, reader, buf Val, n, er Val) {}
