package main

// Check mode: one property, all its units, verdicts against the committed baseline and known findings, evidence.

import (
	"golang.org/x/tools/go/ssa"
	"encoding/json"
	"fmt"
	"go/types"
	"os"
	"path/filepath"
	"regexp"
	"sort"
	"strconv"
	"strings"
	"time"
)

type PropTarget struct {
	Module string   `json:"module"`
	Pkg    string   `json:"pkg"`
	Units  []string `json:"units"`
	Kinds  []string `json:"kinds,omitempty"` // obligation kinds that count for the property (empty = all)
	Own    bool     `json:"ownership,omitempty"`
	Seq    bool     `json:"seq,omitempty"` // sequential reading: "func@seq" contracts, no havoc at lock acquisition
}

type PropConfig struct {
	ID          string       `json:"id"`
	Targets     []PropTarget `json:"targets"`
	Assumptions []string     `json:"assumptions"`
	Explanation string       `json:"explanation"`
	Lean        []string     `json:"lean,omitempty"`
	Extra       []string     `json:"extra,omitempty"` // extra engines: "tables:ecdsa" ...
}

type groupResult struct {
	Name   string
	Kind   string
	Unit   string
	Status string
	Solver string
	Time   float64
	Pos    string
	Ob     *Obligation
	N      int
}

type Baseline struct {
	Discharged []string        `json:"discharged"`
	Classes    map[string]bool `json:"classes"` // unit|kind -> every obligation of the class was discharged
}

var safetyKinds = map[string]bool{"index": true, "slice": true, "nil-deref": true, "nil-map": true, "nil-call": true, "type-assert": true,
	"panic": true, "div0": true, "make-size": true, "relock": true, "unlock-unheld": true, "lock-balance": true}

var ownershipKinds = map[string]bool{"guarded-by": true, "immutable": true, "atomic": true, "guarded-field-store": true, "ownership-complete": true, "monitor-stable": true}

func loadJSON(path string, v any) error {
	b, err := os.ReadFile(path)
	if err != nil {
		return err
	}
	return json.Unmarshal(b, v)
}

type finding struct {
	kind     string // finding | fixed
	property string
	pattern  string
	text     string
	used     bool
}

func loadFindings(path string) []*finding {
	b, err := os.ReadFile(path)
	if err != nil {
		return nil
	}
	var out []*finding
	for _, l := range strings.Split(string(b), "\n") {
		l = strings.TrimSpace(l)
		if l == "" || strings.HasPrefix(l, "#") {
			continue
		}
		f := &finding{}
		switch {
		case strings.HasPrefix(l, "finding:"):
			f.kind = "finding"
			l = strings.TrimSpace(l[8:])
		case strings.HasPrefix(l, "fixed:"):
			f.kind = "fixed"
			l = strings.TrimSpace(l[6:])
		default:
			continue
		}
		// property=Cxx obligation=<name (no spaces; '␣' stands for a space)> text...
		for _, fld := range strings.Fields(l) {
			if strings.HasPrefix(fld, "property=") {
				f.property = fld[9:]
			} else if strings.HasPrefix(fld, "obligation=") {
				f.pattern = strings.ReplaceAll(fld[11:], "␣", " ")
			}
		}
		f.text = l
		out = append(out, f)
	}
	return out
}

func checkMain(repo, verifRoot, prop, tier, replayFile string, verbose bool) int {
	start := time.Now()
	verif := verifRoot
	if out := os.Getenv("GOVC_OUT"); out != "" {
		// selftest runs: evidence and replays go elsewhere; specs, baseline and findings are read from verifRoot
		verif = out
	}
	if replayFile != "" {
		return replayMain(repo, verif, replayFile)
	}
	var props map[string]*PropConfig
	if err := loadJSON(filepath.Join(verifRoot, "specs", "props.json"), &props); err != nil {
		fmt.Println("cannot read props.json:", err)
		return 2
	}
	pc := props[prop]
	if pc == nil {
		fmt.Println("unknown property", prop)
		return 2
	}
	seed := 0
	if s := os.Getenv("VERIF_SEED"); s != "" {
		seed, _ = strconv.Atoi(s)
	}
	timeout := 10.0
	if tier == "thorough" {
		timeout = 60
	}
	tmp, _ := os.MkdirTemp("", "govc")
	defer os.RemoveAll(tmp)

	var results []*groupResult
	var contractErrs, missingUnits []string
	trusted := map[string]bool{}
	unmodelled := map[string]bool{}
	callbacks := map[string]bool{}
	inlined := map[string]bool{}
	byContract := map[string]bool{}
	unsupported := map[string]bool{}
	assumptions := map[string]bool{}
	funcsUnderContract := map[string]bool{}
	totalPaths, totalInstances, trivial, guardedOK := 0, 0, 0, 0
	solverWins := map[string]int{}
	solverTime := 0.0
	var boundedNotes []string
	leanDone := false
	ownUnits := map[string]bool{} // units of ownership targets: every ownership obligation in them is claimed, baseline or not

	// one engine per module (registry is global: reset between modules)
	byModule := map[string][]PropTarget{}
	var modOrder []string
	for _, t := range pc.Targets {
		if _, ok := byModule[t.Module]; !ok {
			modOrder = append(modOrder, t.Module)
		}
		byModule[t.Module] = append(byModule[t.Module], t)
	}
	for _, mod := range modOrder {
		resetGlobals()
		e := newEngine(repo)
		e.solverTimeout = timeout
		e.tmpdir = tmp
		if err := e.load(mod); err != nil {
			fmt.Printf("VIOLATION property=%s replay=%s no-failing-input-found\n", prop, writeReplayNote(verif, prop, "load-error", "the repository no longer loads: "+err.Error(), nil))
			fmt.Println("load error:", err)
			writeEvidence(verif, pc, tier, seed, nil, nil, time.Since(start).Seconds(), 1, map[string]any{"load_error": err.Error()})
			return 1
		}
		for _, t := range byModule[mod] {
			e.checkOwnership = t.Own
			e.seqMode = t.Seq
			pkgPath := ""
			for p := range e.spkgs {
				if p == t.Pkg || strings.HasSuffix(p, "/"+t.Pkg) {
					pkgPath = p
				}
			}
			if pkgPath == "" {
				missingUnits = append(missingUnits, t.Pkg+" (package)")
				continue
			}
			names := e.expandUnitNames(pkgPath, t.Units)
			us, missing := e.unitsFor(pkgPath, names)
			for _, m := range missing {
				missingUnits = append(missingUnits, e.shortPkg(pkgPath)+"."+m)
			}
			kinds := map[string]bool{}
			for _, k := range t.Kinds {
				if k == "safety" {
					for s := range safetyKinds {
						kinds[s] = true
					}
				} else {
					kinds[k] = true
				}
			}
			first := len(e.obligations)
			if t.Own {
				e.ownershipComplete(pkgPath)
				for _, u := range us {
					ownUnits[u.Name] = true
				}
			}
			for _, u := range us {
				funcsUnderContract[u.Name] = true
				e.runUnit(u)
			}
			// drop obligations of kinds that do not count for this property (they are still assumed on the path)
			if len(kinds) > 0 {
				kept := e.obligations[:first]
				for _, o := range e.obligations[first:] {
					if kinds[o.Kind] || o.Kind == "cover-pre" || o.Status == "error" {
						kept = append(kept, o)
					}
				}
				e.obligations = kept
			}
		}
		for _, x := range pc.Extra {
			if strings.HasPrefix(x, "lean:") && (mod == "mpc/bls" || mod == "mpc/ps") {
				// the Lean file speaks about the spec functions of both copies: the kernel check runs once per property run (with
				// the first of the two modules), the quoted spec-function texts are compared with every module's contract file
				var pkgs []string
				for _, t := range byModule[mod] {
					pkgs = append(pkgs, t.Pkg)
				}
				if !leanDone {
					leanDone = true
					if err := e.leanObligations(verifRoot, x[5:], pkgs[:1], 600.0); err != nil {
						contractErrs = append(contractErrs, x+": "+err.Error())
					}
					funcsUnderContract[x] = true
				} else {
					e.bridgeOnly(verifRoot, x[5:], pkgs[:1])
				}
			}
			if strings.HasPrefix(x, "bounded:choose") && (mod == "mpc/bls" || mod == "mpc/ps") {
				bound := 12
				if tier == "thorough" {
					bound = 18
				}
				e.boundedChoose(repo, mod, filepath.Base(mod), bound)
				for _, n := range e.boundedNotes {
					boundedNotes = append(boundedNotes, n)
				}
			}
			if strings.HasPrefix(x, "tables:") && mod == "mpc/binance/"+x[7:] {
				if err := e.tableObligations(repo, x[7:]); err != nil {
					contractErrs = append(contractErrs, "tables:"+x[7:]+": "+err.Error())
				}
				funcsUnderContract[x[7:]+".tables (msgURL2Round, broadcastMessages)"] = true
			}
		}
		e.solveAll()
		for _, g := range e.groups() {
			gr := &groupResult{Name: g.name, Kind: g.kind, Status: g.status, N: len(g.instances)}
			o := g.worst
			if o == nil {
				o = g.instances[0]
			}
			gr.Ob = o
			gr.Unit, gr.Pos, gr.Solver = o.Func, o.Pos, o.Solver
			for _, i := range g.instances {
				if i.Time > 1.5 && os.Getenv("GOVC_SLOW") != "" {
					fmt.Printf("SLOW %.1fs %s %s %s\n", i.Time, i.Name, i.Status, i.Solver)
				}
				gr.Time += i.Time
				solverTime += i.Time
				if i.Status == "unsat" || (i.ExpectSat && i.Status == "sat") {
					solverWins[strings.SplitN(i.Solver, "(", 2)[0]]++
				}
			}
			results = append(results, gr)
		}
		contractErrs = append(contractErrs, e.allContractErrors()...)
		for k := range e.usedLibModels {
			trusted[k] = true
		}
		for k := range e.unmodelled {
			unmodelled[k] = true
		}
		for k := range e.unmodelledIface {
			callbacks[k] = true
		}
		for k := range e.inlined {
			inlined[k] = true
		}
		for k := range e.calledByContract {
			byContract[k] = true
		}
		for k := range e.unsupportedSeen {
			unsupported[k] = true
		}
		for k := range e.assumptions {
			assumptions[k] = true
		}
		totalPaths += e.paths
		totalInstances += len(e.obligations)
		trivial += e.trivial
		guardedOK += e.guardedOK
		// trusted contracts
		for _, cf := range e.contracts {
			for n, ct := range cf.Funcs {
				if ct.Trusted && byContract[n] {
					trusted["trusted contract (assumed, body not verified): "+n] = true
				}
			}
		}
	}

	// verdicts -----------------------------------------------------------------------------
	var base Baseline
	basePath := filepath.Join(verifRoot, "baseline", prop+".json")
	haveBase := loadJSON(basePath, &base) == nil
	if os.Getenv("GOVC_UPDATE_BASELINE") != "" {
		nb := Baseline{Classes: map[string]bool{}}
		classAll := map[string]bool{}
		// a unit that is verified at all is claimed for every safety kind: a new failing safety obligation in it
		// (for example a lock that is no longer released on some path) is a violation, not an unclaimed novelty
		for _, r := range results {
			for k := range safetyKinds {
				if _, ok := classAll[r.Unit+"|"+k]; !ok {
					classAll[r.Unit+"|"+k] = true
				}
			}
		}
		for _, r := range results {
			k := r.Unit + "|" + r.Kind
			if _, ok := classAll[k]; !ok {
				classAll[k] = true
			}
			if r.Status == "discharged" {
				nb.Discharged = append(nb.Discharged, r.Name)
			} else {
				classAll[k] = false
			}
		}
		sort.Strings(nb.Discharged)
		nb.Classes = classAll
		os.MkdirAll(filepath.Dir(basePath), 0o755)
		b, _ := json.MarshalIndent(nb, "", " ")
		os.WriteFile(basePath, b, 0o644)
		base, haveBase = nb, true
		fmt.Printf("baseline written: %d discharged obligations\n", len(nb.Discharged))
	}
	inBase := map[string]bool{}
	for _, n := range base.Discharged {
		inBase[n] = true
	}
	findings := loadFindings(filepath.Join(verifRoot, "known_findings.txt"))
	exit := 0
	violations := 0
	claimed, discharged, boundedPassed := 0, 0, 0
	var undecidedNew, knownLines []string
	var samples []any
	os.RemoveAll(filepath.Join(verif, "replays", prop))
	for _, e := range contractErrs {
		fmt.Println("CONTRACT-ERROR", e)
	}
	if len(contractErrs) > 0 || len(missingUnits) > 0 {
		// fail closed: code the proof no longer covers is not reported as verified
		what := strings.Join(append(append([]string{}, missingUnits...), contractErrs...), "; ")
		p := writeReplayNote(verif, prop, "target-exists", "contract targets missing or contract errors: "+what, nil)
		fmt.Printf("VIOLATION property=%s replay=%s no-failing-input-found\n", prop, p)
		fmt.Println("  obligation target-exists failed:", what)
		exit = 1
		violations++
	}
	seenNow := map[string]bool{}
	for _, r := range results {
		seenNow[r.Name] = true
		isClaimed := inBase[r.Name] || base.Classes[r.Unit+"|"+r.Kind]
		if ownershipKinds[r.Kind] && (ownUnits[r.Unit] || strings.HasPrefix(r.Unit, "type ")) {
			isClaimed = true
		}
		if !haveBase {
			isClaimed = false
		}
		if r.Status == "discharged" {
			if r.Kind == "bounded" {
				boundedPassed++ // a bounded stand-in that passed: reported separately, never counted as a discharged obligation
			} else if isClaimed || !haveBase {
				claimed++
				discharged++
			}
			if len(samples) < 6 && r.Kind != "cover-pre" {
				samples = append(samples, map[string]any{"obligation": r.Name, "kind": r.Kind, "at": r.Pos, "paths": r.N, "solver": r.Solver, "time_s": round3(r.Time)})
			}
			continue
		}
		// not discharged: known finding?
		var kf *finding
		for _, f := range findings {
			if f.kind == "finding" && f.property == prop && matchPattern(f.pattern, r.Name) {
				kf = f
			}
		}
		if kf != nil {
			kf.used = true
			knownLines = append(knownLines, fmt.Sprintf("KNOWN-FINDING: %s [%s at %s]", kf.text, r.Name, r.Pos))
			continue
		}
		if isClaimed {
			claimed++
			path, confirmed := tryReplay(repo, verif, prop, r)
			suffix := ""
			if !confirmed {
				suffix = " no-failing-input-found"
			}
			fmt.Printf("VIOLATION property=%s replay=%s%s\n", prop, path, suffix)
			fmt.Printf("  obligation %s [%s] %s (%s)\n", r.Name, r.Pos, r.Status, oneLine(r.Ob.Output))
			exit = 1
			violations++
			continue
		}
		// new obligation, never claimed: violation only with a confirmed replay
		path, confirmed := tryReplay(repo, verif, prop, r)
		if confirmed {
			fmt.Printf("VIOLATION property=%s replay=%s\n", prop, path)
			fmt.Printf("  obligation %s [%s] %s\n", r.Name, r.Pos, r.Status)
			exit = 1
			violations++
			continue
		}
		undecidedNew = append(undecidedNew, r.Name)
		fmt.Printf("UNDECIDED obligation=%s status=%s at=%s\n", strings.ReplaceAll(r.Name, " ", "␣"), r.Status, r.Pos)
	}
	for _, l := range knownLines {
		fmt.Println(l)
	}
	vanished := 0
	for n := range inBase {
		if !seenNow[n] {
			vanished++
		}
	}
	wall := time.Since(start).Seconds()
	extra := map[string]any{
		"functions_under_contract": sortedKeys(funcsUnderContract),
		"inlined_callees":          sortedKeys(inlined),
		"called_by_contract":       sortedKeys(byContract),
		"unmodelled_calls":         sortedKeys(unmodelled),
		"callbacks_assumed_non_reentrant": sortedKeys(callbacks),
		"unsupported":              sortedKeys(unsupported),
		"unclaimed_undecided":      undecidedNew,
		"known_findings":           knownLines,
		"vanished_baseline_obligations": vanished,
		"paths":                    totalPaths,
		"obligation_instances":     totalInstances,
		"trivially_true_instances": trivial,
		"ownership_accesses_checked_syntactically": guardedOK,
		"solver_wins":              solverWins,
		"solver_time_s":            round3(solverTime),
		"baseline_file":            basePath,
		"bounded_stand_ins_not_counted_as_proved": boundedNotes,
		"bounded_stand_ins_passed":                boundedPassed,
	}
	tb := sortedKeys(trusted)
	for _, a := range sortedKeys(assumptions) {
		tb = append(tb, "assumption: "+a)
	}
	writeEvidenceFull(verif, pc, tier, seed, samples, tb, wall, violations, claimed, discharged, extra)
	fmt.Printf("%s %s: obligations=%d discharged=%d violations=%d known-findings=%d unclaimed-undecided=%d wall=%.1fs\n", prop, tier, claimed, discharged, violations, len(knownLines), len(undecidedNew), wall)
	return exit
}

func round3(f float64) float64 { return float64(int(f*1000)) / 1000 }

func oneLine(s string) string {
	s = strings.ReplaceAll(s, "\n", " | ")
	if len(s) > 200 {
		s = s[:200]
	}
	return s
}

func matchPattern(pat, name string) bool {
	if pat == name {
		return true
	}
	if strings.Contains(pat, "*") {
		re := "^" + strings.ReplaceAll(regexp.QuoteMeta(pat), `\*`, ".*") + "$"
		ok, _ := regexp.MatchString(re, name)
		return ok
	}
	return false
}

func resetGlobals() {
	reg = &Registry{structName: map[string]string{}, structOf: map[string]*types.Struct{}, boxes: map[string]bool{}, cards: map[string]bool{}, funs: map[string]bool{}, strlits: map[string]string{}}
	typeTags = map[string]int{}
	typeTagList = nil
	typeCache = map[string]types.Type{}
	heapValType = map[string]types.Type{}
	heapKeySort = map[string]string{}
	heapKeyType = map[string]types.Type{}
	heapSortOf = map[string]string{}
	registerWireHeaps()
	iterMapTerm = map[string]string{}
	iterKeyType = map[string]types.Type{}
	iterOf = map[*ssa.Range]string{}
}

func writeReplayNote(verif, prop, name, text string, r *groupResult) string {
	dir := filepath.Join(verif, "replays", prop)
	os.MkdirAll(dir, 0o755)
	p := filepath.Join(dir, sanitize(name)+".txt")
	var b strings.Builder
	fmt.Fprintf(&b, "property: %s\nobligation: %s\n%s\n", prop, name, text)
	if r != nil && r.Ob != nil {
		fmt.Fprintf(&b, "status: %s\nsolver: %s\nat: %s\ntrace: %s\nsolver output:\n%s\n", r.Status, r.Ob.Solver, r.Pos, strings.Join(r.Ob.Trace, " "), r.Ob.Output)
		if len(r.Ob.Model) > 0 {
			b.WriteString("model:\n")
			for _, k := range sortedKeys(r.Ob.Model) {
				fmt.Fprintf(&b, "  %s = %s\n", k, r.Ob.Model[k])
			}
		}
	}
	os.WriteFile(p, []byte(b.String()), 0o644)
	return p
}

func writeEvidence(verif string, pc *PropConfig, tier string, seed int, samples []any, tb []string, wall float64, violations int, extra map[string]any) {
	writeEvidenceFull(verif, pc, tier, seed, samples, tb, wall, violations, 0, 0, extra)
}

func writeEvidenceFull(verif string, pc *PropConfig, tier string, seed int, samples []any, tb []string, wall float64, violations, obligations, discharged int, extra map[string]any) {
	if samples == nil {
		samples = []any{}
	}
	if tb == nil {
		tb = []string{}
	}
	cov := map[string]any{
		"obligations":  obligations,
		"discharged":   discharged,
		"checker_cmd":  fmt.Sprintf("/verif/bin/govc -prop %s -tier %s   (VCs from go/ssa of /repo's working tree; z3-new 5.1.0 | z3 4.8.12 | cvc5 1.0.3 raced per obligation)", pc.ID, tier),
		"trusted_base": tb,
		"samples":      samples,
		"explanation":  pc.Explanation,
	}
	for k, v := range extra {
		cov[k] = v
	}
	ev := map[string]any{
		"property_id": pc.ID,
		"tier":        tier,
		"seed":        seed,
		"level":       "proof",
		"coverage":    cov,
		"assumptions": pc.Assumptions,
		"wall_s":      round3(wall),
		"violations":  violations,
	}
	os.MkdirAll(filepath.Join(verif, "evidence"), 0o755)
	b, _ := json.MarshalIndent(ev, "", " ")
	os.WriteFile(filepath.Join(verif, "evidence", pc.ID+".json"), b, 0o644)
}

func replayMain(repo, verif, file string) int {
	b, err := os.ReadFile(file)
	if err != nil {
		fmt.Println(err)
		return 2
	}
	if strings.HasSuffix(file, ".txt") {
		fmt.Print(string(b))
		fmt.Println("(no executable replay was generated for this obligation)")
		return 1
	}
	ok, out := runReplayFile(repo, file)
	fmt.Print(out)
	if ok {
		fmt.Println("replay: violation reproduced on the real code")
		return 1
	}
	fmt.Println("replay: not reproduced")
	return 0
}
