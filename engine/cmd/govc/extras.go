package main

// Extra engines of C18:
//   "lean:<file relative to /verif>"  the Lean/Mathlib file that gives the specification functions their mathematical meaning is
//                                     re-checked by the Lean kernel on every run; one obligation per theorem, plus bridge
//                                     obligations that the spec-function texts quoted in the Lean file are the ones in the
//                                     contract files of /repo (so that the theorems speak about what the code was proved to refine)
//   "bounded:choose"                  a BOUNDED stand-in (never counted as proved): the real chooseKoutOfN is run for every
//                                     1 <= k <= n <= N and must produce every k-subset exactly once

import (
	"context"
	"encoding/json"
	"fmt"
	"os"
	"os/exec"
	"path/filepath"
	"regexp"
	"strings"
	"time"
)

const mathlibDir = "/opt/veriftools/mathlib4"

func normSpace(s string) string { return strings.Join(strings.Fields(s), " ") }

func (e *Engine) addExtra(kind, name, unit, pos string, holds bool, solver, detail string, secs float64) {
	o := &Obligation{Name: name, Kind: kind, Func: unit, Pos: pos, Goal: "true", Output: detail, Time: secs}
	if holds {
		o.Status, o.Solver = "unsat", solver
	} else {
		o.Goal = "false"
		o.Status, o.Solver = "sat", solver
	}
	e.addObligation(o)
}

// leanObligations: verifDir is the root of /verif, file the Lean source relative to it, pkgs the package paths whose contract
// files must contain the quoted spec functions.
func (e *Engine) leanObligations(verifDir, file string, pkgs []string, timeout float64) error {
	path := filepath.Join(verifDir, file)
	src, err := os.ReadFile(path)
	if err != nil {
		return err
	}
	unit := "lean:" + filepath.Base(file)
	// bridge: lines "-- govc-spec <name>: <text>" quote the spec functions the file transliterates
	quoted := 0
	for _, l := range strings.Split(string(src), "\n") {
		l = strings.TrimSpace(l)
		if !strings.HasPrefix(l, "-- govc-spec ") {
			continue
		}
		rest := l[len("-- govc-spec "):]
		i := strings.Index(rest, ":")
		if i < 0 {
			continue
		}
		name, text := strings.TrimSpace(rest[:i]), normSpace(rest[i+1:])
		only := ""
		if j := strings.Index(name, "@"); j > 0 {
			name, only = name[:j], name[j+1:]
		}
		quoted++
		for _, pk := range pkgs {
			if only != "" && !strings.HasSuffix(pk, "/"+only) {
				continue
			}
			cf := e.contracts[pk]
			ok, have := false, "(no such spec func)"
			if cf != nil {
				if sf, found := cf.SpecFuncs[name]; found {
					have = normSpace(sf.Text)
					ok = have == text
				}
			}
			e.addExtra("lean", fmt.Sprintf("%s#bridge[%s@%s]", unit, name, e.shortPkg(pk)), unit, file, ok, "text-compare",
				fmt.Sprintf("the Lean file transliterates\n  %s\nthe contract file of %s has\n  %s", text, pk, have), 0)
		}
	}
	e.addExtra("lean", unit+"#bridge-present", unit, file, quoted >= 4, "text-compare", fmt.Sprintf("%d quoted spec functions", quoted), 0)
	// the kernel check
	ctx, cancel := context.WithTimeout(context.Background(), time.Duration(timeout*float64(time.Second)))
	defer cancel()
	start := time.Now()
	cmd := exec.CommandContext(ctx, "lake", "env", "lean", path)
	cmd.Dir = mathlibDir
	outb, runErr := cmd.CombinedOutput()
	secs := time.Since(start).Seconds()
	out := string(outb)
	clean := runErr == nil && !strings.Contains(out, ": error") && !strings.Contains(out, "sorry")
	code := regexp.MustCompile(`(?s)/-.*?-/`).ReplaceAllString(string(src), "")
	code = regexp.MustCompile(`(?m)--.*$`).ReplaceAllString(code, "")
	if regexp.MustCompile(`\b(sorry|admit|axiom|unsafe|implemented_by|native_decide)\b`).MatchString(code) {
		clean = false
		out += "\nthe source contains sorry / axiom / admit"
	}
	// only the three standard axioms of Mathlib may be used
	for _, m := range regexp.MustCompile(`depends on axioms: \[([^\]]*)\]`).FindAllStringSubmatch(out, -1) {
		for _, a := range strings.Split(m[1], ",") {
			switch strings.TrimSpace(a) {
			case "propext", "Classical.choice", "Quot.sound":
			default:
				clean = false
				out += "\nnon-standard axiom: " + a
			}
		}
	}
	if ctx.Err() != nil {
		out += "\nlean timed out"
	}
	ths := regexp.MustCompile(`(?m)^theorem\s+([A-Za-z0-9_']+)`).FindAllStringSubmatch(string(src), -1)
	e.addExtra("lean", unit+"#theorems-present", unit, file, len(ths) >= 5, "lean4-kernel", fmt.Sprintf("%d theorems", len(ths)), 0)
	for i, t := range ths {
		s := 0.0
		if i == 0 {
			s = secs
		}
		detail := ""
		if !clean {
			detail = tail(out, 3000)
		}
		e.addExtra("lean", unit+"#theorem["+t[1]+"]", unit, file, clean, "lean4-kernel (Lean 4.33.0, Mathlib v4.33.0)", detail, s)
	}
	e.assumptions["Lean side: the definitions in "+file+" are hand transliterations of the spec functions (the quoted texts are compared with the contract files on every run; the transliteration itself - Int-indexed guarded recursion vs recursion on Nat, integer points vs their images in the field - is by inspection)"] = true
	return nil
}

// bridgeOnly: the textual bridge obligations for a second copy of the spec functions (ps), without running Lean again.
func (e *Engine) bridgeOnly(verifDir, file string, pkgs []string) {
	src, err := os.ReadFile(filepath.Join(verifDir, file))
	if err != nil {
		return
	}
	unit := "lean:" + filepath.Base(file)
	for _, l := range strings.Split(string(src), "\n") {
		l = strings.TrimSpace(l)
		if !strings.HasPrefix(l, "-- govc-spec ") {
			continue
		}
		rest := l[len("-- govc-spec "):]
		i := strings.Index(rest, ":")
		if i < 0 {
			continue
		}
		name, text := strings.TrimSpace(rest[:i]), normSpace(rest[i+1:])
		only := ""
		if j := strings.Index(name, "@"); j > 0 {
			name, only = name[:j], name[j+1:]
		}
		for _, pk := range pkgs {
			if only != "" && !strings.HasSuffix(pk, "/"+only) {
				continue
			}
			cf := e.contracts[pk]
			ok, have := false, "(no such spec func)"
			if cf != nil {
				if sf, found := cf.SpecFuncs[name]; found {
					have = normSpace(sf.Text)
					ok = have == text
				}
			}
			if name == "aggG1" && strings.HasSuffix(pk, "/ps") {
				continue // ps has no G1 aggregation function
			}
			e.addExtra("lean", fmt.Sprintf("%s#bridge[%s@%s]", unit, name, e.shortPkg(pk)), unit, file, ok, "text-compare",
				fmt.Sprintf("the Lean file transliterates\n  %s\nthe contract file of %s has\n  %s", text, pk, have), 0)
		}
	}
}

func tail(s string, n int) string {
	if len(s) > n {
		return s[len(s)-n:]
	}
	return s
}

const chooseTest = `package %s

import (
	"fmt"
	"testing"
)

func TestGovcBoundedChoose(t *testing.T) {
	const N = %d
	binom := func(n, k int) int {
		r := 1
		for i := 1; i <= k; i++ {
			r = r * (n - k + i) / i
		}
		return r
	}
	for n := 1; n <= N; n++ {
		for k := 1; k <= n; k++ {
			seen := map[string]bool{}
			calls := 0
			chooseKoutOfN(n, k, func(s []int64) {
				calls++
				if len(s) != k {
					t.Fatalf("GOVC-BOUNDED-FAIL n=%%d k=%%d: subset %%v has %%d elements", n, k, s, len(s))
				}
				for i, x := range s {
					if x < 1 || x > int64(n) || (i > 0 && s[i-1] >= x) {
						t.Fatalf("GOVC-BOUNDED-FAIL n=%%d k=%%d: subset %%v is not strictly increasing within 1..n", n, k, s)
					}
				}
				seen[fmt.Sprint(s)] = true
			})
			if calls != binom(n, k) || len(seen) != binom(n, k) {
				t.Fatalf("GOVC-BOUNDED-FAIL n=%%d k=%%d: %%d calls, %%d distinct subsets, want %%d", n, k, calls, len(seen), binom(n, k))
			}
		}
	}
	fmt.Println("GOVC-BOUNDED-OK")
}
`

// boundedChoose runs the real chooseKoutOfN of the package in moduleDir/pkgDir (relative to repo) for all 1 <= k <= n <= bound.
func (e *Engine) boundedChoose(repo, module, pkgName string, bound int) {
	start := time.Now()
	tmp, _ := os.MkdirTemp("", "govcbounded")
	defer os.RemoveAll(tmp)
	tf := filepath.Join(tmp, "zz_govc_bounded_test.go")
	os.WriteFile(tf, []byte(fmt.Sprintf(chooseTest, pkgName, bound)), 0o644)
	target := filepath.Join(repo, module, "zz_govc_bounded_test.go")
	ov := filepath.Join(tmp, "ov.json")
	ovb, _ := json.Marshal(map[string]any{"Replace": map[string]string{target: tf}})
	os.WriteFile(ov, ovb, 0o644)
	cmd := exec.Command("go", "test", "-overlay", ov, "-vet=off", "-count=1", "-timeout", "300s", "-run", "^TestGovcBoundedChoose$", "-v", ".")
	cmd.Dir = filepath.Join(repo, module)
	cmd.Env = append(os.Environ(), "GOFLAGS=-mod=mod", "GOPROXY=off", "GOSUMDB=off", "GOTOOLCHAIN=local")
	out, _ := cmd.CombinedOutput()
	ok := strings.Contains(string(out), "GOVC-BOUNDED-OK") && !strings.Contains(string(out), "GOVC-BOUNDED-FAIL")
	detail := ""
	if !ok {
		detail = tail(string(out), 2000)
	}
	unit := pkgName + ".chooseKoutOfN"
	e.addExtra("bounded", unit+"#bounded[every k-subset exactly once]", unit, module+"/choose.go", ok,
		fmt.Sprintf("go-test of the real function (BOUNDED n<=%d, not a proof)", bound), detail, time.Since(start).Seconds())
	e.boundedNotes = append(e.boundedNotes, fmt.Sprintf("%s: completeness of the subset enumeration (every k-subset of 1..n is handed to the callback exactly once) is checked by running the real function for all 1<=k<=n<=%d: BOUNDED, not proved; the contracts prove soundness of every subset handed over (k strictly increasing elements of 1..n) for all n, k", unit, bound))
}
