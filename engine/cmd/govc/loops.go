package main

// Loop cut points: write discovery, candidate invariants (Houdini), user invariants.

import (
	"os"
	"fmt"
	"go/types"
	"regexp"
	"sort"
	"strconv"
	"strings"

	"golang.org/x/tools/go/ssa"
)

type stopCtx struct {
	depth  int
	blocks map[*ssa.BasicBlock]bool
	header *ssa.BasicBlock
}

type cand struct {
	alloc *ssa.Alloc
	text  string
	mk    func(cur string) string      // candidates about one local
	mkSt  func(st *State) string       // candidates about the state (heap frames)
	quant bool
}

func (e *Engine) candFormula(st *State, c cand) (string, bool) {
	if c.mkSt != nil {
		return c.mkSt(st), true
	}
	own := e.frameOf(st, c.alloc, len(st.frames))
	if own == nil {
		return "", false
	}
	return c.mk(own.locals[c.alloc].S), true
}

// localsEnv exposes the named locals of a frame (and its parameters) to contract expressions.
func (e *Engine) localsEnv(st *State, fr *Frame, env *Env) {
	fn := fr.fn
	seen := map[string]int{}
	for _, b := range fn.Blocks {
		for _, ins := range b.Instrs {
			a, ok := ins.(*ssa.Alloc)
			if !ok || a.Comment == "" {
				continue
			}
			r, bound := fr.regs[a]
			if !bound {
				// declared later on other paths: an unconstrained value, so that guarded assertions can mention it
				if _, seen := env.vars[a.Comment]; !seen {
					env.vars[a.Comment] = st.freshVal("undeclared_"+a.Comment, deref(a.Type()))
				}
				continue
			}
			var v Val
			if r.A != nil {
				v = st.load(r.A)
			} else {
				v = e.loadPtr(st, r)
			}
			v.T = deref(a.Type())
			name := a.Comment
			seen[name]++
			// name#k is the k-th declaration of the name in the function; the plain name is the last one
			env.vars[fmt.Sprintf("%s#%d", name, seen[name])] = v
			// parameters are copied into locals of the same name; the spec name of a parameter means its entry value
			isParam := false
			for _, p := range fn.Params {
				if p.Name() == name {
					isParam = true
				}
			}
			if isParam {
				env.vars[name+"$cur"] = v
				continue
			}
			env.vars[name] = v
		}
	}
	// the slice a "for ... range <expr>" loop iterates over (an unnamed temporary): rangeslice, rangeslice#2, ...
	nrs := 0
	seenIdx := map[ssa.Value]bool{}
	for _, b := range fn.Blocks {
		for _, ins := range b.Instrs {
			ia, ok := ins.(*ssa.IndexAddr)
			if !ok {
				continue
			}
			var idxAlloc ssa.Value
			switch ix := ia.Index.(type) {
			case *ssa.UnOp:
				if a, ok := ix.X.(*ssa.Alloc); ok && a.Comment == "rangeindex" {
					idxAlloc = a
				}
			case *ssa.Phi:
				if ix.Comment == "rangeindex" {
					idxAlloc = ix
				}
			}
			if idxAlloc == nil || seenIdx[idxAlloc] {
				continue
			}
			seenIdx[idxAlloc] = true
			nrs++
			if v, bound := fr.regs[ia.X]; bound {
				env.vars[fmt.Sprintf("rangeslice#%d", nrs)] = v
				env.vars["rangeslice"] = v
			}
		}
	}
	for _, p := range fn.Params {
		if v, ok := fr.regs[p]; ok {
			env.vars[p.Name()] = v
		}
	}
	for i, fv := range fn.FreeVars {
		if i < len(fr.freeVars) {
			b := fr.freeVars[i]
			var v Val
			if b.A != nil {
				v = st.load(b.A)
			} else {
				v = e.loadPtr(st, b)
			}
			v.T = deref(fv.Type())
			env.vars[fv.Name()] = v
		}
	}
}

func (e *Engine) atLoopHeader(st *State, fr *Frame, b *ssa.BasicBlock) {
	depth := len(st.frames)
	if ctx, seen := fr.loopSeen[b]; seen {
		// back edge
		switch ctx.mode {
		case 3: // unrolled
			nc := *ctx
			nc.remaining--
			fr.loopSeen[b] = &nc
			if nc.remaining < 0 {
				st.dead = true
			}
			return
		case 1: // discovery
			// an iteration that observed the expiry of a context and went on to the next iteration
			if st.writes != nil {
				for c, d := range st.ctxDone {
					if d && !ctx.doneAtEntry[c] {
						if os.Getenv("GOVC_HOUDINI") != "" {
							fmt.Fprintf(os.Stderr, "DONE-CARRIED %s b%d trace=%v\n", fr.fn.Name(), b.Index, st.trace[max(0, len(st.trace)-8):])
						}
						st.writes["$done:"+c] = true
					}
				}
			}
			st.dead = true
		case 2: // houdini
			e.collectCandChecks(st, fr, b)
			st.dead = true
		default:
			e.checkLoopInvariants(st, fr, b, "preserved")
			st.dead = true
		}
		return
	}
	li := e.loopsOf(fr.fn)[b]
	// range loops over a collection of small constant length are unrolled instead of cut
	if n, ok := e.constTripCount(st, fr, b); ok && len(e.loopInvs(fr, b)) == 0 {
		fr.loopSeen[b] = &loopCtx{mode: 3, remaining: n + 1}
		return
	}
	e.checkLoopInvariants(st, fr, b, "entry")
	stop := &stopCtx{depth: depth, blocks: li.blocks, header: b}
	c0 := freshCounter

	// pass 1: discover writes (iterate: havoc what was found, look again)
	writes := map[string]bool{}
	lwrites := map[*ssa.Alloc]bool{}
	for iter := 0; iter < 4; iter++ {
		d := st.clone()
		df := d.frames[depth-1]
		d.quiet++
		d.writes = map[string]bool{}
		d.lwrites = map[*ssa.Alloc]bool{}
		d.stop = stop
		entryDone := map[string]bool{}
		for c, dn := range st.ctxDone {
			entryDone[c] = dn
		}
		df.loopSeen[b] = &loopCtx{mode: 1, doneAtEntry: entryDone}
		e.havocLoopState(d, df, writes, lwrites, c0)
		e.assumeLoopInvariants(d, df, b, nil)
		saveQB := e.quietBudget
		e.quietBudget = false
		e.run(d)
		grew := false
		for k := range d.writes {
			if !writes[k] {
				writes[k] = true
				grew = true
			}
		}
		for k := range d.lwrites {
			// locals allocated inside the loop body are re-created in every iteration
			if ab := k.Block(); li.blocks[ab] && k.Parent() == fr.fn {
				continue
			}
			if !lwrites[k] {
				lwrites[k] = true
				grew = true
			}
		}
		if e.quietBudget {
			// could not explore the body completely: havoc everything
			for h := range st.heaps {
				writes[h] = true
			}
			writes["*"] = true
			e.quietBudget = saveQB
			break
		}
		e.quietBudget = saveQB
		if !grew {
			break
		}
	}

	// pass 2: candidate invariants for written integer locals
	var cands []cand
	var allocs []*ssa.Alloc
	for a := range lwrites {
		allocs = append(allocs, a)
	}
	sort.Slice(allocs, func(i, j int) bool { return allocs[i].Pos() < allocs[j].Pos() })
	for _, a := range allocs {
		t := deref(a.Type())
		if _, _, ok := intInfo(t); !ok {
			if _, isSlice := t.Underlying().(*types.Slice); isSlice {
				a0 := st.init["$alloc"]
				cands = append(cands, cand{alloc: a, text: a.Comment + " is nil or allocated by this call", mk: func(cur string) string {
					return fmt.Sprintf("(or (= %s 0) (> %s %s))", slRef(cur), slRef(cur), a0)
				}})
			}
			continue
		}
		own := e.frameOf(st, a, depth)
		if own == nil {
			continue
		}
		entry, ok := own.locals[a]
		if !ok {
			continue
		}
		ev := entry.S
		cands = append(cands,
			cand{alloc: a, text: a.Comment + " >= entry", mk: func(cur string) string { return "(>= " + cur + " " + ev + ")" }},
			cand{alloc: a, text: a.Comment + " <= entry", mk: func(cur string) string { return "(<= " + cur + " " + ev + ")" }})
	}
	// heap frames relative to the unit's entry state (only useful when the unit has a modifies clause)
	if st.unit.Contract != nil && st.unit.Contract.HasMod && st.unit.Fn != nil {
		var hs []string
		for h := range writes {
			hs = append(hs, h)
		}
		sort.Strings(hs)
		for _, h := range hs {
			h := h
			if h == "*" || h == "$alloc" || strings.HasPrefix(h, "G!") || (strings.HasPrefix(h, "L!") && !strings.HasPrefix(h, "L!alg!")) {
				continue
			}
			cands = append(cands, cand{text: "frame of " + h, quant: true, mkSt: func(s *State) string { return e.frameFormula(s, h) }})
		}
	}
	// invariants of the monitors whose locks are held: the critical section must be able to rely on them after the loop
	for _, l := range st.locks {
		if l.mon == nil {
			continue
		}
		l := l
		for _, inv := range l.mon.Invs {
			inv := inv
			cands = append(cands, cand{text: "monitor invariant " + inv.Name, quant: true, mkSt: func(s *State) string {
				env := e.monitorEnv(s, l.mon, l.base, l.stt)
				return env.evalBool(inv.Expr)
			}})
		}
	}
	// stable clauses of held monitors, relative to the state in which the loop is entered (the relation is transitive)
	entrySnap := snapshotHeaps(st)
	for _, l := range st.locks {
		if l.mon == nil {
			continue
		}
		l := l
		for _, c := range l.mon.Stable {
			c := c
			cands = append(cands, cand{text: "monitor stable " + c.Name, quant: true, mkSt: func(s *State) string {
				env := e.stableEnv(s, l.mon, l.base, l.stt, entrySnap)
				return env.evalBool(c.Expr)
			}})
		}
	}
	// candidates must hold on entry
	if len(cands) > 0 {
		var checks []candCheck
		for i, c := range cands {
			if f, ok := e.candFormula(st, c); ok {
				checks = append(checks, candCheck{idx: i, goal: f, quant: c.quant, decls: st.decls[:len(st.decls):len(st.decls)], pc: st.pc[:len(st.pc):len(st.pc)]})
			}
		}
		failed := map[int]bool{}
		for _, r := range e.solveBatch(checks) {
			if r.status != "unsat" {
				failed[r.idx] = true
			}
		}
		var keep []cand
		for i, c := range cands {
			if !failed[i] {
				keep = append(keep, c)
			} else if os.Getenv("GOVC_HOUDINI") != "" {
				fmt.Fprintf(os.Stderr, "HOUDINI %s loop b%d: not on entry: %s\n", fr.fn.Name(), b.Index, c.text)
			}
		}
		cands = keep
	}
	for round := 0; round < 4 && len(cands) > 0; round++ {
		h := st.clone()
		hf := h.frames[depth-1]
		h.quiet++
		h.stop = stop
		var checks []candCheck
		h.collect = &checks
		hf.loopSeen[b] = &loopCtx{mode: 2, cands: cands}
		e.havocLoopState(h, hf, writes, lwrites, c0)
		e.assumeLoopInvariants(h, hf, b, cands)
		e.run(h)
		failed := map[int]bool{}
		for _, r := range e.solveBatch(checks) {
			if r.status != "unsat" {
				failed[r.idx] = true
			}
		}
		if len(failed) == 0 {
			break
		}
		var keep []cand
		for i, c := range cands {
			if !failed[i] {
				keep = append(keep, c)
			} else if os.Getenv("GOVC_HOUDINI") != "" {
				fmt.Fprintf(os.Stderr, "HOUDINI %s loop b%d round %d: not preserved: %s\n", fr.fn.Name(), b.Index, round, c.text)
			}
		}
		cands = keep
	}

	// pass 3: the real run continues from the cut
	fr.loopSeen[b] = &loopCtx{mode: 0, cands: cands}
	e.havocLoopState(st, fr, writes, lwrites, c0)
	e.assumeLoopInvariants(st, fr, b, cands)
	// an earlier iteration may have observed the expiry of a context (done(ctx) is path state): continue from the cut
	// in both cases
	for _, k := range sortedKeys(writes) {
		if !strings.HasPrefix(k, "$done:") {
			continue
		}
		c := k[len("$done:"):]
		if st.ctxDone[c] {
			continue
		}
		if other := e.fork(st); other != nil {
			if other.ctxDone == nil {
				other.ctxDone = map[string]bool{}
			}
			other.ctxDone[c] = true
			other.trace = append(other.trace, "loop:done-observed-earlier")
			e.run(other)
		}
	}
}

func (e *Engine) frameOf(st *State, a *ssa.Alloc, maxDepth int) *Frame {
	for i := maxDepth - 1; i >= 0; i-- {
		if st.frames[i].fn == a.Parent() {
			if _, ok := st.frames[i].locals[a]; ok {
				return st.frames[i]
			}
		}
	}
	return nil
}

var symRe = regexp.MustCompile(`![0-9]+`)

// preLoop reports whether every fresh symbol in term was created before counter c0.
func preLoop(term string, c0 int) bool {
	for _, m := range symRe.FindAllString(term, -1) {
		n, _ := strconv.Atoi(m[1:])
		if n > c0 {
			return false
		}
	}
	return true
}

func (e *Engine) havocLoopState(st *State, fr *Frame, writes map[string]bool, lwrites map[*ssa.Alloc]bool, c0 int) {
	depth := len(st.frames)
	// the allocation frontier first: a local written by the loop may hold a reference allocated in an earlier iteration, so
	// "allocated" for the havocked locals means below the frontier AFTER the loop's allocations (doing it in the other order
	// made the state after the cut inconsistent whenever such a local was also known to be fresh: found by the must-fail
	// corpus, mutant c18-bls-lagrange-last-factor-dropped)
	if writes["$alloc"] {
		st.bumpFrontier()
	}
	var allocs []*ssa.Alloc
	for a := range lwrites {
		allocs = append(allocs, a)
	}
	sort.Slice(allocs, func(i, j int) bool { return allocs[i].Pos() < allocs[j].Pos() })
	for _, a := range allocs {
		own := e.frameOf(st, a, depth)
		if own == nil {
			continue
		}
		t := deref(a.Type())
		v := st.freshVal("loop_"+a.Comment, t)
		st.assumeAllocated(v.S, t)
		own.locals[a] = v
	}
	var hs []string
	for h := range writes {
		hs = append(hs, h)
	}
	sort.Strings(hs)
	for _, h := range hs {
		if h == "*" {
			continue
		}
		if h == "$alloc" {
			continue // bumped above
		}
		st.havocHeap(h)
	}
}

func (e *Engine) loopOrd(fr *Frame, b *ssa.BasicBlock) int { return e.loopsOf(fr.fn)[b].ord }

func (e *Engine) loopInvs(fr *Frame, b *ssa.BasicBlock) []Clause {
	ct := e.contractFor(fr.fn)
	if ct == nil {
		return nil
	}
	return ct.LoopInv[e.loopOrd(fr, b)]
}

func (e *Engine) loopEnv(st *State, fr *Frame) *Env {
	env := &Env{eng: e, st: st, pkg: e.pkgOf(fr.fn), vars: map[string]Val{}, oldSnap: st.unitOld, hasOld: true, where: "loop invariant in " + funcDisplayName(fr.fn)}
	e.localsEnv(st, fr, env)
	// mutable ghost variables of the unit (only of the unit's own frame: inlined callees do not see them)
	if len(st.frames) > 0 && st.frames[0] == fr {
		for k, v := range st.gvars {
			if _, shadow := env.vars[k]; !shadow {
				env.vars[k] = v
			}
		}
	}
	return env
}

func (e *Engine) assumeLoopInvariants(st *State, fr *Frame, b *ssa.BasicBlock, cands []cand) {
	invs := e.loopInvs(fr, b)
	if len(invs) > 0 {
		env := e.loopEnv(st, fr)
		for _, c := range invs {
			st.assume(env.evalBool(c.Expr))
		}
	}
	for _, c := range cands {
		if f, ok := e.candFormula(st, c); ok {
			st.assume(f)
		}
	}
}

// frameFormula: heap h agrees with its value at unit entry on every row that existed then and is not named by
// the unit's modifies clause.
func (e *Engine) frameFormula(st *State, h string) string {
	cur, ok := st.heaps[h]
	if !ok {
		return "true"
	}
	old := st.init[h]
	if cur == old {
		return "true"
	}
	u := st.unit
	fr0 := st.frames[0]
	env := &Env{eng: e, st: st, pkg: e.pkgOf(u.Fn), vars: map[string]Val{}, snap: st.unitOld, where: "modifies of " + u.Name}
	for k, v := range u.entryFreeVars {
		env.vars[k] = v
	}
	for _, p := range u.Fn.Params {
		if v, ok := fr0.regs[p]; ok {
			env.vars[p.Name()] = v
		}
	}
	var ne []string
	for _, m := range u.Contract.Modifies {
		for _, loc := range e.locationsOf(env, m) {
			if loc.heap == h {
				if loc.row == "*" {
					return "true"
				}
				ne = append(ne, not(eq("r!f", loc.row)))
			}
		}
	}
	return fmt.Sprintf("(forall ((r!f Int)) (! (=> %s (= (select %s r!f) (select %s r!f))) :pattern ((select %s r!f))))",
		and(append(ne, fmt.Sprintf("(<= r!f %s)", st.init["$alloc"]))...), cur, old, cur)
}

func (e *Engine) checkLoopInvariants(st *State, fr *Frame, b *ssa.BasicBlock, phase string) {
	invs := e.loopInvs(fr, b)
	if len(invs) == 0 {
		return
	}
	env := e.loopEnv(st, fr)
	k := e.loopOrd(fr, b)
	for i, c := range invs {
		nm := c.Name
		if nm == "" {
			nm = fmt.Sprintf("%d", i)
		}
		name := fmt.Sprintf("%s#loop[%d]-%s[%s]", funcDisplayName(fr.fn), k, phase, nm)
		if fr.fn != st.unit.Fn {
			name = st.unit.Name + ">" + name
		}
		st.oblige("loop-"+phase, name, env.evalBool(c.Expr), b.Instrs[0].Pos())
	}
}

func (e *Engine) collectCandChecks(st *State, fr *Frame, b *ssa.BasicBlock) {
	ctx := fr.loopSeen[b]
	if st.collect == nil {
		return
	}
	for i, c := range ctx.cands {
		f, ok := e.candFormula(st, c)
		if !ok {
			continue
		}
		*st.collect = append(*st.collect, candCheck{idx: i, goal: f, quant: c.quant,
			decls: st.decls[:len(st.decls):len(st.decls)], pc: st.pc[:len(st.pc):len(st.pc)]})
	}
}

func describeCands(cs []cand) string {
	var s []string
	for _, c := range cs {
		s = append(s, c.text)
	}
	return strings.Join(s, "; ")
}

// constTripCount recognises "for i := range s" (rangeindex loop) whose length operand is a small constant on
// this path (typically a variadic argument list).
func (e *Engine) constTripCount(st *State, fr *Frame, b *ssa.BasicBlock) (int, bool) {
	if b.Comment != "rangeindex.loop" {
		return 0, false
	}
	for _, ins := range b.Instrs {
		if bo, ok := ins.(*ssa.BinOp); ok && bo.Op.String() == "<" {
			if v, bound := fr.regs[bo.Y]; bound {
				if n, isConst := smallConst(v.S); isConst && n <= 6 {
					return int(n), true
				}
			}
		}
	}
	return 0, false
}
