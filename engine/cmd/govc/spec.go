package main

// Contract language: lexer, parser (expressions), contract-file reader.

import (
	"fmt"
	"go/ast"
	"go/token"
	"strings"
	"unicode"
)

type SExpr struct {
	Op   string // int bool str nil id sel index slice call unary binary forall exists old
	Name string // identifier / field / operator / function name
	Lit  string
	Args []*SExpr
	Vars []SVar // quantifier variables
	Trig [][]*SExpr // explicit triggers of a quantifier
	Pos  int
}

type SVar struct {
	Name string
	Type string
}

func (e *SExpr) String() string {
	switch e.Op {
	case "int", "bool", "nil":
		return e.Lit
	case "str":
		return fmt.Sprintf("%q", e.Lit)
	case "id":
		return e.Name
	case "sel":
		return e.Args[0].String() + "." + e.Name
	case "index":
		return e.Args[0].String() + "[" + e.Args[1].String() + "]"
	case "slice":
		s := e.Args[0].String() + "["
		if e.Args[1] != nil {
			s += e.Args[1].String()
		}
		s += ":"
		if e.Args[2] != nil {
			s += e.Args[2].String()
		}
		return s + "]"
	case "call":
		var as []string
		for _, a := range e.Args {
			as = append(as, a.String())
		}
		return e.Name + "(" + strings.Join(as, ", ") + ")"
	case "unary":
		return e.Name + e.Args[0].String()
	case "binary":
		return "(" + e.Args[0].String() + " " + e.Name + " " + e.Args[1].String() + ")"
	case "forall", "exists":
		var vs []string
		for _, v := range e.Vars {
			vs = append(vs, v.Name+" "+v.Type)
		}
		return e.Op + " " + strings.Join(vs, ", ") + " :: " + e.Args[0].String()
	case "old":
		return "old(" + e.Args[0].String() + ")"
	case "lit":
		var as []string
		for _, a := range e.Args {
			as = append(as, a.String())
		}
		return e.Name + "{" + strings.Join(as, ", ") + "}"
	}
	return "?"
}

type tok struct {
	kind string // id int str op eof
	text string
	pos  int
}

func lexSpec(s string) ([]tok, error) {
	var out []tok
	rs := []rune(s)
	i := 0
	for i < len(rs) {
		c := rs[i]
		switch {
		case c == ' ' || c == '\t' || c == '\n' || c == '\r':
			i++
		case unicode.IsLetter(c) || c == '_':
			j := i
			for j < len(rs) && (unicode.IsLetter(rs[j]) || unicode.IsDigit(rs[j]) || rs[j] == '_' || rs[j] == '$' || rs[j] == '#') {
				j++
			}
			out = append(out, tok{"id", string(rs[i:j]), i})
			i = j
		case unicode.IsDigit(c):
			j := i
			for j < len(rs) && (unicode.IsDigit(rs[j]) || rs[j] == 'x' || (rs[j] >= 'a' && rs[j] <= 'f') || (rs[j] >= 'A' && rs[j] <= 'F') || rs[j] == '_') {
				j++
			}
			out = append(out, tok{"int", string(rs[i:j]), i})
			i = j
		case c == '"':
			j := i + 1
			var b strings.Builder
			for j < len(rs) && rs[j] != '"' {
				if rs[j] == '\\' && j+1 < len(rs) {
					j++
					switch rs[j] {
					case 'n':
						b.WriteRune('\n')
					case 't':
						b.WriteRune('\t')
					default:
						b.WriteRune(rs[j])
					}
				} else {
					b.WriteRune(rs[j])
				}
				j++
			}
			if j >= len(rs) {
				return nil, fmt.Errorf("unterminated string at %d", i)
			}
			out = append(out, tok{"str", b.String(), i})
			i = j + 1
		default:
			ops := []string{"<==>", "==>", "::", "==", "!=", "<=", ">=", "<<", ">>", "&&", "||", "&^", "+", "-", "*", "/", "%", "<", ">", "!", "(", ")", "[", "]", "{", "}", ",", ".", ":", "&", "|", "^"}
			matched := false
			for _, op := range ops {
				if strings.HasPrefix(string(rs[i:min(i+len(op), len(rs))]), op) {
					out = append(out, tok{"op", op, i})
					i += len([]rune(op))
					matched = true
					break
				}
			}
			if !matched {
				return nil, fmt.Errorf("unexpected character %q at %d", c, i)
			}
		}
	}
	out = append(out, tok{"eof", "", len(rs)})
	return out, nil
}

type specParser struct {
	toks []tok
	p    int
	src  string
}

func parseSpecExpr(s string) (*SExpr, error) {
	toks, err := lexSpec(s)
	if err != nil {
		return nil, err
	}
	p := &specParser{toks: toks, src: s}
	e, err := p.expr()
	if err != nil {
		return nil, fmt.Errorf("%v in %q", err, s)
	}
	if p.peek().kind != "eof" {
		return nil, fmt.Errorf("trailing input at %d (%q) in %q", p.peek().pos, p.peek().text, s)
	}
	return e, nil
}

func (p *specParser) peek() tok { return p.toks[p.p] }
func (p *specParser) next() tok { t := p.toks[p.p]; p.p++; return t }
func (p *specParser) isOp(s string) bool {
	t := p.peek()
	return t.kind == "op" && t.text == s
}
func (p *specParser) isId(s string) bool {
	t := p.peek()
	return t.kind == "id" && t.text == s
}
func (p *specParser) expect(s string) error {
	if !p.isOp(s) {
		return fmt.Errorf("expected %q at %d, got %q", s, p.peek().pos, p.peek().text)
	}
	p.next()
	return nil
}

func (p *specParser) expr() (*SExpr, error) {
	if p.isId("forall") || p.isId("exists") {
		q := p.next().text
		var vars []SVar
		for {
			name := p.next()
			if name.kind != "id" {
				return nil, fmt.Errorf("quantifier variable expected at %d", name.pos)
			}
			ty, err := p.typeString()
			if err != nil {
				return nil, err
			}
			vars = append(vars, SVar{name.text, ty})
			if p.isOp(",") {
				p.next()
				continue
			}
			break
		}
		if err := p.expect("::"); err != nil {
			return nil, err
		}
		var trig [][]*SExpr
		for p.isOp("{") {
			p.next()
			var mp []*SExpr
			for !p.isOp("}") {
				t, err := p.expr()
				if err != nil {
					return nil, err
				}
				mp = append(mp, t)
				if p.isOp(",") {
					p.next()
				}
			}
			p.next()
			trig = append(trig, mp)
		}
		body, err := p.expr()
		if err != nil {
			return nil, err
		}
		return &SExpr{Op: q, Vars: vars, Trig: trig, Args: []*SExpr{body}}, nil
	}
	return p.iff()
}

// typeString consumes a Go type expression (simple forms) and returns its text.
func (p *specParser) typeString() (string, error) {
	var b strings.Builder
	for {
		t := p.peek()
		switch {
		case t.kind == "op" && (t.text == "[" || t.text == "]" || t.text == "*" || t.text == "."):
			b.WriteString(t.text)
			p.next()
		case t.kind == "id" && t.text == "map":
			b.WriteString("map")
			p.next()
		case t.kind == "id":
			b.WriteString(t.text)
			p.next()
			if p.isOp(".") {
				continue
			}
			return b.String(), nil
		case t.kind == "int":
			b.WriteString(t.text)
			p.next()
		default:
			return "", fmt.Errorf("type expected at %d", t.pos)
		}
	}
}

func (p *specParser) iff() (*SExpr, error) {
	l, err := p.imp()
	if err != nil {
		return nil, err
	}
	for p.isOp("<==>") {
		p.next()
		r, err := p.imp()
		if err != nil {
			return nil, err
		}
		l = &SExpr{Op: "binary", Name: "<==>", Args: []*SExpr{l, r}}
	}
	return l, nil
}

func (p *specParser) imp() (*SExpr, error) {
	l, err := p.lor()
	if err != nil {
		return nil, err
	}
	if p.isOp("==>") {
		p.next()
		var r *SExpr
		if p.isId("forall") || p.isId("exists") {
			r, err = p.expr()
		} else {
			r, err = p.imp()
		}
		if err != nil {
			return nil, err
		}
		return &SExpr{Op: "binary", Name: "==>", Args: []*SExpr{l, r}}, nil
	}
	return l, nil
}

func (p *specParser) binLevel(ops []string, sub func() (*SExpr, error)) (*SExpr, error) {
	l, err := sub()
	if err != nil {
		return nil, err
	}
	for {
		found := ""
		for _, op := range ops {
			if p.isOp(op) || (op == "in" && p.isId("in")) {
				found = op
				break
			}
		}
		if found == "" {
			return l, nil
		}
		p.next()
		var r *SExpr
		if (found == "&&" || found == "||") && (p.isId("forall") || p.isId("exists")) {
			r, err = p.expr()
		} else {
			r, err = sub()
		}
		if err != nil {
			return nil, err
		}
		l = &SExpr{Op: "binary", Name: found, Args: []*SExpr{l, r}}
	}
}

func (p *specParser) lor() (*SExpr, error)  { return p.binLevel([]string{"||"}, p.land) }
func (p *specParser) land() (*SExpr, error) { return p.binLevel([]string{"&&"}, p.cmp) }
func (p *specParser) cmp() (*SExpr, error) {
	return p.binLevel([]string{"==", "!=", "<=", ">=", "<", ">", "in"}, p.addl)
}
func (p *specParser) addl() (*SExpr, error) { return p.binLevel([]string{"+", "-", "|", "^"}, p.mull) }
func (p *specParser) mull() (*SExpr, error) {
	return p.binLevel([]string{"*", "/", "%", "<<", ">>", "&^", "&"}, p.unary)
}

func (p *specParser) unary() (*SExpr, error) {
	if p.isOp("!") || p.isOp("-") || p.isOp("*") {
		op := p.next().text
		x, err := p.unary()
		if err != nil {
			return nil, err
		}
		return &SExpr{Op: "unary", Name: op, Args: []*SExpr{x}}, nil
	}
	return p.postfix()
}

func (p *specParser) postfix() (*SExpr, error) {
	x, err := p.primary()
	if err != nil {
		return nil, err
	}
	for {
		switch {
		case p.isOp("."):
			p.next()
			t := p.next()
			if t.kind != "id" && t.kind != "int" {
				return nil, fmt.Errorf("field name expected at %d", t.pos)
			}
			x = &SExpr{Op: "sel", Name: t.text, Args: []*SExpr{x}}
		case p.isOp("["):
			p.next()
			var lo, hi *SExpr
			if !p.isOp(":") {
				lo, err = p.expr()
				if err != nil {
					return nil, err
				}
			}
			if p.isOp(":") {
				p.next()
				if !p.isOp("]") {
					hi, err = p.expr()
					if err != nil {
						return nil, err
					}
				}
				if err := p.expect("]"); err != nil {
					return nil, err
				}
				x = &SExpr{Op: "slice", Args: []*SExpr{x, lo, hi}}
			} else {
				if err := p.expect("]"); err != nil {
					return nil, err
				}
				x = &SExpr{Op: "index", Args: []*SExpr{x, lo}}
			}
		case p.isOp("{") && x.Op == "id":
			p.next()
			lit := &SExpr{Op: "lit", Name: x.Name}
			for !p.isOp("}") {
				a, err := p.expr()
				if err != nil {
					return nil, err
				}
				lit.Args = append(lit.Args, a)
				if p.isOp(",") {
					p.next()
				}
			}
			p.next()
			x = lit
		case p.isOp("("):
			// call: callee must be an identifier or selector chain (pkg.Type conversions)
			name := ""
			switch x.Op {
			case "id":
				name = x.Name
			case "sel":
				name = x.String()
			default:
				return nil, fmt.Errorf("cannot call %s", x)
			}
			p.next()
			var args []*SExpr
			for !p.isOp(")") {
				a, err := p.expr()
				if err != nil {
					return nil, err
				}
				args = append(args, a)
				if p.isOp(",") {
					p.next()
				}
			}
			p.next()
			if name == "old" && len(args) == 1 {
				x = &SExpr{Op: "old", Args: args}
			} else {
				x = &SExpr{Op: "call", Name: name, Args: args}
			}
		default:
			return x, nil
		}
	}
}

func (p *specParser) primary() (*SExpr, error) {
	t := p.next()
	switch t.kind {
	case "int":
		return &SExpr{Op: "int", Lit: strings.ReplaceAll(t.text, "_", "")}, nil
	case "str":
		return &SExpr{Op: "str", Lit: t.text}, nil
	case "id":
		switch t.text {
		case "true", "false":
			return &SExpr{Op: "bool", Lit: t.text}, nil
		case "nil":
			return &SExpr{Op: "nil", Lit: "nil"}, nil
		}
		return &SExpr{Op: "id", Name: t.text}, nil
	case "op":
		if t.text == "(" {
			e, err := p.expr()
			if err != nil {
				return nil, err
			}
			if err := p.expect(")"); err != nil {
				return nil, err
			}
			return e, nil
		}
		if t.text == "[" {
			// slice type conversion: []byte(x)
			if err := p.expect("]"); err != nil {
				return nil, err
			}
			id := p.next()
			if id.kind != "id" {
				return nil, fmt.Errorf("element type expected at %d", id.pos)
			}
			return &SExpr{Op: "id", Name: "[]" + id.text}, nil
		}
	}
	return nil, fmt.Errorf("unexpected token %q at %d", t.text, t.pos)
}

// ---------------------------------------------------------------------------------------
// contract files

type Clause struct {
	Name string
	Text string
	Expr *SExpr
}

type LemmaStep struct {
	Kind   string   // let | assert | assume-contract
	Vars   []string // let targets
	Callee string
	Args   []*SExpr
	Expr   *SExpr
	Name   string
	Text   string
}

type EventClause struct {
	Fired   int    // how often the clause matched a program point (vacuity guard)
	Line    int
	Results []Clause // assumptions about the result of the callback (configuration assumptions, listed in the evidence)
	Uses    []Clause // instances of built-in lemmas (valid formulas) assumed at the event
	Kind    string // on-call | on-send | at | on-entry
	Target  string // e.g. r.ForwardToBackend  or mapupdate(s.rbcInProgress)
	Params  []string
	Asserts []Clause
	Assumes []Clause
	Ghost   []GhostUpdate
}

type GhostUpdate struct {
	Text string
	LHS  *SExpr
	RHS  *SExpr
	Cond *SExpr
}

type Contract struct {
	Target     string // display name of the function, e.g. (*Receiver).registerMsg or newRBCEncoding or runDKG$1
	Pkg        string
	Requires   []Clause
	Captured   []Clause // requires about captured variables only: checked where the closure is created
	Ensures    []Clause
	AssumedEns []Clause // assume-ensures: assumed at call sites, not checked on the body (listed as assumptions)
	Modifies   []string
	HasMod     bool
	LoopInv    map[int][]Clause
	Inline     bool
	Pure       bool
	Trusted    bool // contract is assumed at call sites, body not verified (listed in the evidence)
	GhostParam []SVar
	GhostVars  []SVar // mutable ghost variables (initialised to the zero value of their type)
	Events     []*EventClause
	Decreases  *SExpr
	Props      []string // properties this contract serves
	Line       int
	NoPanicOff bool
	Holds      []string // locks held at entry (requires held(l))
	Unit       bool     // verify as a unit even if only inlined elsewhere
	Iter       *IterSpec // higher-order iteration: the function calls one of its function parameters some number of times
	Seq        bool     // sequential reading: monitors do not havoc guarded state at acquire (histories, not interleavings)
}

// IterSpec: "iterates f(x, y) [nonempty-when expr]" followed by "iterates-requires expr" clauses (over the callee's
// parameters and the callback's formals). The callee's body must establish them (on-call f(...) assertions).
type IterSpec struct {
	Param    string
	Formals  []string
	NonEmpty *SExpr
	Requires []Clause
}

type SpecFunc struct {
	Macro  bool // expanded at the use site (may read the heap of the use site)
	Name   string
	Params []SVar
	Result string
	Body   *SExpr
	Text   string
	Pkg    string
	Rec    bool
}

type Lemma struct {
	Name     string
	Pkg      string
	Params   []SVar
	Requires []Clause
	Steps    []LemmaStep
	Props    []string
	// induction lemma over spec functions: proved by induction on the integer parameter Induction (base: <= 0 without
	// hypothesis, step: the statement at Induction-1 as hypothesis); once proved by its own unit it is assumed, with Patterns
	// as triggers, wherever one of the spec functions of its patterns is applied
	Induction string
	Patterns  []*SExpr
	Index     int
}

type Monitor struct {
	Pkg     string
	Type    string // struct type name
	Lock    string // field name of the lock
	Guards  []string
	Invs    []Clause
	Stable  []Clause // two-state clauses (old() = state at the previous release/acquire): guaranteed by every critical section, relied on across havoc
	RecvVar string
}

type TypeSpec struct {
	Pkg     string
	Name    string
	Ghost   []SVar
	Invs    []Clause
	Owner   map[string]string // field -> ownership clause
	RecvVar string
}

type OnceSpec struct {
	Pkg     string
	Type    string
	Field   string
	RecvVar string
	Ensures []Clause
	FirstPre []Clause // state in which the first call finds the object (assumed on the branch that runs the function)
}

type ContractFile struct {
	Pkg       string
	Path      string
	Funcs     map[string]*Contract
	SeqFuncs  map[string]*Contract // "func@seq T": the contract used when a target is verified in the sequential reading
	SpecFuncs map[string]*SpecFunc
	Lemmas    []*Lemma
	Axioms    []Clause // file-level axioms over spec functions (assumptions, listed in the evidence)
	Monitors  []*Monitor
	Types     map[string]*TypeSpec
	Onces     []*OnceSpec
	Errors    []string
}

// specLines extracts the //@ lines of a file's comments, joined with continuation handling.
func specLines(f *ast.File, fset *token.FileSet) []struct {
	line int
	text string
} {
	var out []struct {
		line int
		text string
	}
	for _, cg := range f.Comments {
		for _, c := range cg.List {
			t := c.Text
			if strings.HasPrefix(t, "//@") {
				out = append(out, struct {
					line int
					text string
				}{fset.Position(c.Pos()).Line, strings.TrimRight(t[3:], " \t")})
			} else if strings.HasPrefix(t, "// @") {
				out = append(out, struct {
					line int
					text string
				}{fset.Position(c.Pos()).Line, strings.TrimRight(t[4:], " \t")})
			}
		}
	}
	return out
}

var clauseKeywords = []string{"suppose", "assume-ensures", "stable", "iterates-requires", "iterates", "assume-result", "seq", "ghost-var", "requires-captured", "on-entry", "use", "requires", "ensures", "modifies", "loop", "inline", "pure", "trusted", "ghost-param", "after-call", "on-call", "on-send", "at", "decreases",
	"props", "let", "assert", "induction", "pattern", "guards", "invariant", "ghost", "field", "holds", "unit", "recv", "call"}

func stripComment(s string) string {
	// strip trailing "// ..." comments outside string literals
	inStr := false
	for i := 0; i+1 < len(s); i++ {
		if s[i] == '"' {
			inStr = !inStr
		}
		if !inStr && s[i] == '/' && s[i+1] == '/' {
			return strings.TrimRight(s[:i], " \t")
		}
	}
	return s
}

func parseContractFile(pkg string, path string, f *ast.File, fset *token.FileSet) *ContractFile {
	cf := &ContractFile{Pkg: pkg, Path: path, Funcs: map[string]*Contract{}, SeqFuncs: map[string]*Contract{}, SpecFuncs: map[string]*SpecFunc{}, Types: map[string]*TypeSpec{}}
	lines := specLines(f, fset)
	// join continuation lines: a line continues the previous clause if it does not start with a keyword or a header
	type item struct {
		line int
		text string
	}
	var items []item
	for _, l := range lines {
		t := stripComment(l.text)
		trim := strings.TrimSpace(t)
		if trim == "" {
			continue
		}
		first := strings.Fields(trim)[0]
		first = strings.TrimSuffix(first, ":")
		isHeader := first == "func" || first == "func@seq" || first == "spec" || first == "lemma" || first == "axiom" || first == "monitor" || first == "type" || first == "once"
		isKw := false
		for _, k := range clauseKeywords {
			if first == k {
				isKw = true
			}
		}
		if !isHeader && !isKw && len(items) > 0 {
			items[len(items)-1].text += " " + trim
			continue
		}
		items = append(items, item{l.line, trim})
	}
	errf := func(line int, format string, a ...any) {
		cf.Errors = append(cf.Errors, fmt.Sprintf("%s:%d: %s", path, line, fmt.Sprintf(format, a...)))
	}
	parse := func(line int, s string) *SExpr {
		e, err := parseSpecExpr(s)
		if err != nil {
			errf(line, "%v", err)
			return &SExpr{Op: "bool", Lit: "true"}
		}
		return e
	}
	namedClause := func(line int, rest string) Clause {
		rest = strings.TrimSpace(rest)
		name := ""
		if strings.HasPrefix(rest, "[") {
			if i := strings.Index(rest, "]"); i > 0 {
				name = rest[1:i]
				rest = strings.TrimSpace(rest[i+1:])
			}
		}
		return Clause{Name: name, Text: rest, Expr: parse(line, rest)}
	}
	var cur *Contract
	var curLemma *Lemma
	var curMon *Monitor
	var curType *TypeSpec
	var curOnce *OnceSpec
	var curEvent *EventClause
	reset := func() { cur, curLemma, curMon, curType, curOnce, curEvent = nil, nil, nil, nil, nil, nil }
	for _, it := range items {
		fields := strings.Fields(it.text)
		kw := strings.TrimSuffix(fields[0], ":")
		rest := strings.TrimSpace(strings.TrimPrefix(it.text, fields[0]))
		switch kw {
		case "func@seq":
			reset()
			cur = &Contract{Target: rest, Pkg: pkg, LoopInv: map[int][]Clause{}, Line: it.line, Seq: true}
			if _, dup := cf.SeqFuncs[rest]; dup {
				errf(it.line, "duplicate seq contract for %s", rest)
			}
			cf.SeqFuncs[rest] = cur
		case "func":
			reset()
			cur = &Contract{Target: rest, Pkg: pkg, LoopInv: map[int][]Clause{}, Line: it.line}
			if _, dup := cf.Funcs[rest]; dup {
				errf(it.line, "duplicate contract for %s", rest)
			}
			cf.Funcs[rest] = cur
		case "spec":
			reset()
			// spec func name(params) type = expr
			isMacro := strings.HasPrefix(strings.TrimSpace(rest), "macro")
			if isMacro {
				rest = "func" + strings.TrimPrefix(strings.TrimSpace(rest), "macro")
			}
			sf, err := parseSpecFunc(rest)
			if err != nil {
				errf(it.line, "%v", err)
				continue
			}
			sf.Macro = isMacro
			sf.Pkg = pkg
			if _, dup := cf.SpecFuncs[sf.Name]; dup {
				errf(it.line, "spec function %s is declared twice in this package (the later one would silently replace the earlier)", sf.Name)
			}
			cf.SpecFuncs[sf.Name] = sf
		case "lemma":
			reset()
			name, params, err := parseHeader(rest)
			if err != nil {
				errf(it.line, "%v", err)
				continue
			}
			curLemma = &Lemma{Name: name, Pkg: pkg, Params: params, Index: len(cf.Lemmas)}
			cf.Lemmas = append(cf.Lemmas, curLemma)
		case "axiom":
			reset()
			cf.Axioms = append(cf.Axioms, namedClause(it.line, rest))
		case "induction":
			if curLemma == nil {
				errf(it.line, "induction outside lemma")
				continue
			}
			curLemma.Induction = strings.TrimSpace(rest)
		case "pattern":
			if curLemma == nil {
				errf(it.line, "pattern outside lemma")
				continue
			}
			pe := parse(it.line, "patternlist("+strings.TrimSpace(rest)+")")
			if pe.Op != "call" {
				errf(it.line, "pattern needs a list of applications")
				continue
			}
			curLemma.Patterns = append(curLemma.Patterns, pe.Args...)
		case "monitor":
			reset()
			// monitor (*Box).lock
			t := strings.TrimSpace(rest)
			i := strings.LastIndex(t, ".")
			if i < 0 {
				errf(it.line, "monitor needs (T).lockfield")
				continue
			}
			ty := strings.Trim(t[:i], "(*)")
			curMon = &Monitor{Pkg: pkg, Type: ty, Lock: t[i+1:], RecvVar: "this"}
			cf.Monitors = append(cf.Monitors, curMon)
		case "type":
			reset()
			curType = &TypeSpec{Pkg: pkg, Name: strings.TrimSpace(rest), Owner: map[string]string{}, RecvVar: "this"}
			cf.Types[curType.Name] = curType
		case "once":
			reset()
			t := strings.TrimSpace(rest)
			i := strings.LastIndex(t, ".")
			if i < 0 {
				errf(it.line, "once needs (T).field")
				continue
			}
			curOnce = &OnceSpec{Pkg: pkg, Type: strings.Trim(t[:i], "(*)"), Field: t[i+1:], RecvVar: "this"}
			cf.Onces = append(cf.Onces, curOnce)
		case "recv":
			switch {
			case curMon != nil:
				curMon.RecvVar = rest
			case curType != nil:
				curType.RecvVar = rest
			case curOnce != nil:
				curOnce.RecvVar = rest
			}
		case "requires-captured":
			if cur != nil {
				cur.Captured = append(cur.Captured, namedClause(it.line, rest))
			}
		case "requires":
			c := namedClause(it.line, rest)
			switch {
			case curOnce != nil:
				curOnce.FirstPre = append(curOnce.FirstPre, c)
			case curEvent != nil:
				curEvent.Asserts = append(curEvent.Asserts, c)
			case cur != nil:
				cur.Requires = append(cur.Requires, c)
			case curLemma != nil:
				curLemma.Requires = append(curLemma.Requires, c)
			default:
				errf(it.line, "requires outside func/lemma")
			}
		case "ensures":
			c := namedClause(it.line, rest)
			switch {
			case cur != nil:
				cur.Ensures = append(cur.Ensures, c)
			case curOnce != nil:
				curOnce.Ensures = append(curOnce.Ensures, c)
			default:
				errf(it.line, "ensures outside func")
			}
		case "modifies":
			if cur == nil {
				errf(it.line, "modifies outside func")
				continue
			}
			cur.HasMod = true
			for _, m := range splitTop(rest, ',') {
				m = strings.TrimSpace(m)
				if m != "" && m != "nothing" {
					cur.Modifies = append(cur.Modifies, m)
				}
			}
		case "loop":
			if cur == nil {
				errf(it.line, "loop outside func")
				continue
			}
			// loop k: invariant expr
			var k int
			r := rest
			if _, err := fmt.Sscanf(r, "%d:", &k); err != nil {
				errf(it.line, "loop k: invariant ... expected")
				continue
			}
			r = strings.TrimSpace(r[strings.Index(r, ":")+1:])
			r = strings.TrimSpace(strings.TrimPrefix(r, "invariant"))
			cur.LoopInv[k] = append(cur.LoopInv[k], namedClause(it.line, r))
		case "inline":
			if cur != nil {
				cur.Inline = true
			}
		case "pure":
			if cur != nil {
				cur.Pure = true
			}
		case "trusted":
			if cur != nil {
				cur.Trusted = true
			}
		case "unit":
			if cur != nil {
				cur.Unit = true
			}
		case "seq":
			if cur != nil {
				cur.Seq = true
			}
		case "holds":
			if cur != nil {
				cur.Holds = append(cur.Holds, strings.Fields(rest)...)
			}
		case "props":
			ps := strings.Fields(strings.ReplaceAll(rest, ",", " "))
			switch {
			case cur != nil:
				cur.Props = append(cur.Props, ps...)
			case curLemma != nil:
				curLemma.Props = append(curLemma.Props, ps...)
			}
		case "ghost-var":
			if cur != nil {
				fs := strings.Fields(rest)
				if len(fs) == 2 {
					cur.GhostVars = append(cur.GhostVars, SVar{fs[0], fs[1]})
				}
			}
		case "ghost-param":
			if cur != nil {
				fs := strings.Fields(rest)
				if len(fs) == 2 {
					cur.GhostParam = append(cur.GhostParam, SVar{fs[0], fs[1]})
				}
			}
		case "decreases":
			if cur != nil {
				cur.Decreases = parse(it.line, rest)
			}
		case "assume-ensures":
			if cur != nil {
				cur.AssumedEns = append(cur.AssumedEns, namedClause(it.line, rest))
			}
		case "iterates":
			if cur != nil {
				head, cond := rest, ""
				if i := strings.Index(rest, "nonempty-when"); i >= 0 {
					head, cond = strings.TrimSpace(rest[:i]), strings.TrimSpace(rest[i+len("nonempty-when"):])
				}
				op := strings.Index(head, "(")
				if op < 0 || !strings.HasSuffix(head, ")") {
					errf(it.line, "iterates f(x, ...) expected")
					continue
				}
				is := &IterSpec{Param: strings.TrimSpace(head[:op])}
				for _, f := range strings.Split(head[op+1:len(head)-1], ",") {
					if f = strings.TrimSpace(f); f != "" {
						is.Formals = append(is.Formals, f)
					}
				}
				if cond != "" {
					is.NonEmpty = parse(it.line, cond)
				}
				cur.Iter = is
			}
		case "iterates-requires":
			if cur != nil && cur.Iter != nil {
				cur.Iter.Requires = append(cur.Iter.Requires, namedClause(it.line, rest))
			} else {
				errf(it.line, "iterates-requires without iterates")
			}
		case "assume-result":
			if curEvent == nil {
				errf(it.line, "assume-result outside an event clause")
				continue
			}
			curEvent.Results = append(curEvent.Results, namedClause(it.line, rest))
		case "use":
			if curEvent == nil {
				errf(it.line, "use outside an event clause")
				continue
			}
			curEvent.Uses = append(curEvent.Uses, namedClause(it.line, rest))
		case "on-call", "on-send", "at", "on-entry", "after-call":
			if cur == nil {
				errf(it.line, "%s outside func", kw)
				continue
			}
			ev := &EventClause{Kind: kw, Line: it.line}
			t := strings.TrimSuffix(strings.TrimSpace(rest), ":")
			if i := strings.LastIndex(t, "("); i > 0 && strings.HasSuffix(t, ")") && kw != "at" {
				ev.Target = strings.TrimSpace(t[:i])
				for _, p := range strings.Split(t[i+1:len(t)-1], ",") {
					ev.Params = append(ev.Params, strings.TrimSpace(p))
				}
			} else {
				ev.Target = t
			}
			cur.Events = append(cur.Events, ev)
			curEvent = ev
		case "assert":
			c := namedClause(it.line, rest)
			switch {
			case curEvent != nil:
				curEvent.Asserts = append(curEvent.Asserts, c)
			case curLemma != nil:
				curLemma.Steps = append(curLemma.Steps, LemmaStep{Kind: "assert", Expr: c.Expr, Name: c.Name, Text: c.Text})
			default:
				errf(it.line, "assert outside event/lemma")
			}
		case "suppose":
			if curLemma == nil {
				errf(it.line, "suppose outside lemma")
				continue
			}
			c := namedClause(it.line, rest)
			curLemma.Steps = append(curLemma.Steps, LemmaStep{Kind: "suppose", Expr: c.Expr, Name: c.Name, Text: c.Text})
		case "let":
			if curLemma == nil {
				errf(it.line, "let outside lemma")
				continue
			}
			// let a, b = callee(args)
			i := strings.Index(rest, "=")
			if i < 0 {
				errf(it.line, "let x = f(...) expected")
				continue
			}
			var vars []string
			for _, v := range strings.Split(rest[:i], ",") {
				vars = append(vars, strings.TrimSpace(v))
			}
			ce := parse(it.line, strings.TrimSpace(rest[i+1:]))
			if ce.Op != "call" {
				errf(it.line, "let needs a call on the right-hand side")
				continue
			}
			curLemma.Steps = append(curLemma.Steps, LemmaStep{Kind: "let", Vars: vars, Callee: ce.Name, Args: ce.Args, Text: rest})
		case "ghost":
			switch {
			case curEvent != nil:
				// ghost lhs = rhs
				i := strings.Index(rest, "=")
				if i < 0 {
					errf(it.line, "ghost lhs = rhs expected")
					continue
				}
				curEvent.Ghost = append(curEvent.Ghost, GhostUpdate{Text: rest, LHS: parse(it.line, strings.TrimSpace(rest[:i])), RHS: parse(it.line, strings.TrimSpace(rest[i+1:]))})
			case curType != nil:
				fs := strings.Fields(rest)
				if len(fs) >= 2 {
					curType.Ghost = append(curType.Ghost, SVar{fs[0], strings.Join(fs[1:], " ")})
				}
			}
		case "guards":
			if curMon != nil {
				for _, g := range strings.Split(rest, ",") {
					curMon.Guards = append(curMon.Guards, strings.TrimSpace(g))
				}
			}
		case "stable":
			if curMon != nil {
				curMon.Stable = append(curMon.Stable, namedClause(it.line, rest))
			} else {
				errf(it.line, "stable outside monitor")
			}
		case "invariant":
			c := namedClause(it.line, rest)
			switch {
			case curMon != nil:
				curMon.Invs = append(curMon.Invs, c)
			case curType != nil:
				curType.Invs = append(curType.Invs, c)
			default:
				errf(it.line, "invariant outside monitor/type")
			}
		case "field":
			if curType != nil {
				// field a, b guarded_by lock [frozen_when expr]
				all := strings.Fields(rest)
				split := -1
				for i, f := range all {
					switch strings.TrimSuffix(f, ",") {
					case "guarded_by", "immutable_after", "atomic", "owned_by_caller", "sync", "owned_by", "config", "syncmap":
						if split < 0 {
							split = i
						}
					}
				}
				if split < 0 {
					errf(it.line, "field ownership clause expected")
					continue
				}
				clause := strings.Join(all[split:], " ")
				if !strings.Contains(clause, "frozen_when") {
					clause = strings.Join(strings.Fields(strings.ReplaceAll(clause, ",", " ")), " ")
				}
				for _, f := range strings.Fields(strings.ReplaceAll(strings.Join(all[:split], " "), ",", " ")) {
					curType.Owner[f] = clause
				}
			}
		default:
			errf(it.line, "unknown clause %q", kw)
		}
		if kw != "on-call" && kw != "after-call" && kw != "on-send" && kw != "at" && kw != "on-entry" && kw != "use" && kw != "assume-result" && kw != "assert" && kw != "ghost" && kw != "requires" {
			curEvent = nil
		}
	}
	return cf
}

func splitTop(s string, sep rune) []string {
	var out []string
	d := 0
	start := 0
	for i, c := range s {
		switch c {
		case '(', '[', '{':
			d++
		case ')', ']', '}':
			d--
		}
		if c == sep && d == 0 {
			out = append(out, s[start:i])
			start = i + 1
		}
	}
	out = append(out, s[start:])
	return out
}

// parseHeader parses "name(a T, b U)".
func parseHeader(s string) (string, []SVar, error) {
	i := strings.Index(s, "(")
	j := strings.LastIndex(s, ")")
	if i < 0 || j < i {
		return "", nil, fmt.Errorf("name(params) expected in %q", s)
	}
	name := strings.TrimSpace(s[:i])
	var params []SVar
	for _, p := range splitTop(s[i+1:j], ',') {
		p = strings.TrimSpace(p)
		if p == "" {
			continue
		}
		fs := strings.Fields(p)
		if len(fs) < 2 {
			return "", nil, fmt.Errorf("parameter %q needs a type", p)
		}
		params = append(params, SVar{fs[0], strings.Join(fs[1:], " ")})
	}
	return name, params, nil
}

func parseSpecFunc(rest string) (*SpecFunc, error) {
	rest = strings.TrimSpace(strings.TrimPrefix(strings.TrimSpace(rest), "func"))
	eqi := strings.Index(rest, " = ")
	if eqi < 0 {
		// uninterpreted: "spec func name(params) type"
		j := strings.LastIndex(rest, ")")
		if j < 0 {
			return nil, fmt.Errorf("bad spec func header %q", rest)
		}
		name, params, err := parseHeader(rest[:j+1])
		if err != nil {
			return nil, err
		}
		return &SpecFunc{Name: name, Params: params, Result: strings.TrimSpace(rest[j+1:]), Text: rest}, nil
	}
	head, body := rest[:eqi], strings.TrimSpace(rest[eqi+3:])
	j := strings.LastIndex(head, ")")
	if j < 0 {
		return nil, fmt.Errorf("bad spec func header %q", head)
	}
	name, params, err := parseHeader(head[:j+1])
	if err != nil {
		return nil, err
	}
	res := strings.TrimSpace(head[j+1:])
	be, err := parseSpecExpr(body)
	if err != nil {
		return nil, err
	}
	return &SpecFunc{Name: name, Params: params, Result: res, Body: be, Text: rest}, nil
}
