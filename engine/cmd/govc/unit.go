package main

// Verification units: a function against its contract; a lemma over contracts.

import (
	"fmt"
	"go/token"
	"go/types"
	"path/filepath"
	"sort"
	"strings"

	"golang.org/x/tools/go/ssa"
)

func (e *Engine) newState(u *Unit) *State {
	st := &State{eng: e, unit: u, heaps: map[string]string{}, hsort: map[string]string{}, init: map[string]string{}, cellVal: map[string]Val{}}
	st.unitOld = map[string]string{}
	// allocation frontier starts non-negative: fresh references are > 0, i.e. never nil
	a := st.heap("$alloc", "Int")
	st.assume(fmt.Sprintf("(>= %s 0)", a))
	return st
}

// runFunctionUnit verifies one function against its contract (or the default no-panic contract).
func (e *Engine) runFunctionUnit(u *Unit) {
	fn := u.Fn
	e.cur = u
	e.unitPaths = 0
	e.unitBudgetHit = false
	st := e.newState(u)
	fr := e.newFrame(fn)
	st.frames = []*Frame{fr}
	pkg := e.pkgOf(fn)
	env := &Env{eng: e, st: st, pkg: pkg, vars: map[string]Val{}, where: "requires of " + u.Name}
	// parameters: fresh values satisfying their Go type invariants
	for i, p := range fn.Params {
		v := st.freshVal("in_"+p.Name(), p.Type())
		st.assumeAllocated(v.S, p.Type())
		if i == 0 && fn.Signature.Recv() != nil {
			if _, isPtr := p.Type().Underlying().(*types.Pointer); isPtr {
				st.assume(fmt.Sprintf("(> %s 0)", v.S)) // methods are reached through a non-nil receiver
			}
		}
		if pt, ok := p.Type().Underlying().(*types.Pointer); ok {
			if _, isStruct := pt.Elem().Underlying().(*types.Struct); !isStruct {
				if _, isArr := pt.Elem().Underlying().(*types.Array); !isArr {
					v.A = &Addr{Kind: ACell, Base: v.S, RootT: pt.Elem(), T: pt.Elem()}
				}
			}
		}
		fr.regs[p] = v
		env.vars[p.Name()] = v
		st.inputs = append(st.inputs, InputTerm{Name: p.Name(), Term: v.S})
	}
	// closures verified on their own: captured variables are cells with unconstrained (well-typed) contents
	for _, fv := range fn.FreeVars {
		pt, ok := fv.Type().Underlying().(*types.Pointer)
		if !ok {
			fr.freeVars = append(fr.freeVars, st.freshVal("fv_"+fv.Name(), fv.Type()))
			continue
		}
		r := st.freshVal("fv_"+fv.Name(), fv.Type())
		st.assume(fmt.Sprintf("(> %s 0)", r.S))
		st.assumeAllocated(r.S, fv.Type())
		if _, isStruct := pt.Elem().Underlying().(*types.Struct); !isStruct {
			r.A = &Addr{Kind: ACell, Base: r.S, RootT: pt.Elem(), T: pt.Elem()}
			cv := st.load(r.A)
			cv.T = pt.Elem()
			env.vars[fv.Name()] = cv
			if u.entryFreeVars == nil {
				u.entryFreeVars = map[string]Val{}
			}
			u.entryFreeVars[fv.Name()] = cv
		}
		fr.freeVars = append(fr.freeVars, r)
	}
	e.describeInputs(st, fn)
	ct := u.Contract
	if ct != nil {
		for _, g := range ct.GhostParam {
			t := env.typeOf(g.Type)
			if t == nil {
				t = types.Typ[types.Int]
			}
			env.vars[g.Name] = st.freshVal("ghost_"+g.Name, t)
		}
		u.ghostVars = map[string]Val{}
		for _, g := range ct.GhostParam {
			u.ghostVars[g.Name] = env.vars[g.Name]
		}
		st.gvars = map[string]Val{}
		for _, g := range ct.GhostVars {
			t := env.typeOf(g.Type)
			if t == nil {
				t = types.Typ[types.Bool]
			}
			st.gvars[g.Name] = Val{S: zeroTerm(t), T: t}
		}
		for _, rq := range env.expand(ct.Requires) {
			st.assume(rq.term)
		}
		for _, rq := range env.expand(ct.Captured) {
			st.assume(rq.term)
		}
		e.assumeHolds(st, fn, ct, env)
	}
	e.assumeTypeInvariants(st, fn, env)
	e.entryEvents(st, fr)
	// vacuity guard: preconditions must be satisfiable
	st.oblige("cover-pre", u.Name+"#cover-pre", "false", fn.Pos())
	e.obligations[len(e.obligations)-1].ExpectSat = true
	if e.isLoopHeader(fr.block) {
		e.atLoopHeader(st, fr, fr.block)
	}
	e.run(st)
}

// unitReturn is called when the unit's own frame returns.
func (e *Engine) unitReturn(st *State, fr *Frame, results []Val, pos token.Pos) {
	u := st.unit
	if st.quiet > 0 {
		return
	}
	e.returnsSeen++
	ct := u.Contract
	e.checkLocksReleased(st, fr, pos)
	if ct == nil {
		return
	}
	fn := u.Fn
	env := &Env{eng: e, st: st, pkg: e.pkgOf(fn), vars: map[string]Val{}, oldSnap: st.unitOld, hasOld: true, where: "ensures of " + u.Name}
	for k, v := range u.entryFreeVars {
		env.vars[k] = v // captured variables: their values at entry, like parameters
	}
	for _, p := range fn.Params {
		env.vars[p.Name()] = fr.regs[p]
	}
	for k, v := range u.ghostVars {
		env.vars[k] = v
	}
	var res Val
	switch len(results) {
	case 0:
	case 1:
		res = results[0]
	default:
		res = Val{T: fn.Signature.Results(), Tup: results}
	}
	e.bindResults(env, fn, res)
	for _, en := range env.expand(ct.Ensures) {
		st.oblige("ensures", fmt.Sprintf("%s#ensures[%s]", u.Name, en.name), en.term, pos)
	}
	e.checkTypeInvariantsAtExit(st, fr, env, pos)
	if ct.HasMod {
		e.checkFrame(st, env, ct, pos)
	}
}

// checkFrame: every heap changed since entry agrees with its entry value outside the rows named in modifies.
func (e *Engine) checkFrame(st *State, env *Env, ct *Contract, pos token.Pos) {
	u := st.unit
	pre := &Env{eng: e, st: st, pkg: env.pkg, vars: env.vars, snap: st.unitOld, where: "modifies of " + u.Name}
	allowed := map[string][]string{} // heap -> rows (ref terms) that may change; "*" = any
	for _, m := range ct.Modifies {
		for _, loc := range e.locationsOf(pre, m) {
			allowed[loc.heap] = append(allowed[loc.heap], loc.row)
		}
	}
	a0 := st.init["$alloc"]
	for _, h := range sortedKeys(st.heaps) {
		if h == "$alloc" || strings.HasPrefix(h, "IT!") || strings.HasPrefix(h, "L!hash!") {
			// (the ghost state of hash.Hash objects is not part of a function's frame: hashers are created, fed and
			// read locally in this code base)
			continue
		}
		cur := st.heaps[h]
		old, ok := st.unitOld[h]
		if !ok {
			old = st.init[h]
		}
		if cur == old {
			continue
		}
		rows := allowed[h]
		any := false
		for _, r := range rows {
			if r == "*" {
				any = true
			}
		}
		if any {
			continue
		}
		if strings.HasPrefix(h, "G!") {
			st.oblige("modifies", fmt.Sprintf("%s#modifies[%s]", u.Name, h), eq(cur, old), pos)
			continue
		}
		var ne []string
		for _, r := range rows {
			ne = append(ne, not(eq("r!f", r)))
		}
		// rows allocated during the call (above the entry frontier) are not part of the caller-visible frame
		goal := fmt.Sprintf("(forall ((r!f Int)) (! (=> %s (= (select %s r!f) (select %s r!f))) :pattern ((select %s r!f))))", and(append(ne, fmt.Sprintf("(<= r!f %s)", a0))...), cur, old, cur)
		st.oblige("modifies", fmt.Sprintf("%s#modifies[%s]", u.Name, h), goal, pos)
	}
}

type location struct{ heap, row string }

func (e *Engine) locationsOf(env *Env, m string) []location {
	m = strings.TrimSpace(m)
	if strings.HasPrefix(m, "heap:") {
		return []location{{resolveHeapName(m[5:]), "*"}}
	}
	if strings.HasPrefix(m, "guarded(") && strings.HasSuffix(m, ")") {
		ex, err := parseSpecExpr(m[8 : len(m)-1])
		if err != nil || ex.Op != "sel" {
			return nil
		}
		x := env.eval(ex.Args[0])
		stt := deref(x.T)
		mon := e.monitorFor(stt, ex.Name)
		s, ok := stt.Underlying().(*types.Struct)
		if mon == nil || !ok {
			return nil
		}
		var out []location
		for _, g := range mon.Guards {
			i := findField(s, g)
			if i < 0 {
				if ts := e.typeSpecFor(stt); ts != nil {
					out = append(out, location{"GF!" + ts.Name + "!" + g, x.S})
				}
				continue
			}
			ft := s.Field(i).Type()
			hn, hs := fieldHeapName(stt, s, i)
			out = append(out, location{hn, x.S})
			fv := sel(env.heap(hn, hs), x.S)
			switch t := ft.Underlying().(type) {
			case *types.Map:
				dn, vn, _, _, _ := mapHeapNames(t)
				out = append(out, location{dn, fv}, location{vn, fv})
				if it, ok := t.Elem().Underlying().(*types.Map); ok {
					idn, ivn, _, _, _ := mapHeapNames(it)
					out = append(out, location{idn, "*"}, location{ivn, "*"})
				}
			case *types.Slice:
				en, _ := elemHeapName(t.Elem())
				out = append(out, location{en, "*"})
			}
		}
		return out
	}
	elems := strings.HasSuffix(m, "[*]")
	m = strings.TrimSuffix(m, "[*]")
	ex, err := parseSpecExpr(m)
	if err != nil {
		return nil
	}
	if elems {
		v := env.eval(ex)
		switch t := v.T.Underlying().(type) {
		case *types.Slice:
			hn, _ := elemHeapName(t.Elem())
			return []location{{hn, slRef(v.S)}}
		case *types.Map:
			dn, vn, _, _, _ := mapHeapNames(t)
			return []location{{dn, v.S}, {vn, v.S}}
		}
		return nil
	}
	if ex.Op == "sel" {
		x := env.eval(ex.Args[0])
		if p, ok := x.T.Underlying().(*types.Pointer); ok {
			if s, ok := p.Elem().Underlying().(*types.Struct); ok {
				if i := findField(s, ex.Name); i >= 0 {
					hn, _ := fieldHeapName(p.Elem(), s, i)
					return []location{{hn, x.S}}
				}
				if ts := e.typeSpecFor(p.Elem()); ts != nil {
					return []location{{"GF!" + ts.Name + "!" + ex.Name, x.S}}
				}
			}
		}
	}
	if ex.Op == "unary" && ex.Name == "*" {
		p := env.eval(ex.Args[0])
		if pt, ok := p.T.Underlying().(*types.Pointer); ok {
			if s, ok := pt.Elem().Underlying().(*types.Struct); ok {
				var out []location
				for i := 0; i < s.NumFields(); i++ {
					hn, _ := fieldHeapName(pt.Elem(), s, i)
					out = append(out, location{hn, p.S})
				}
				return out
			}
			hn, _ := cellHeapName(pt.Elem())
			return []location{{hn, p.S}}
		}
	}
	return nil
}

// describeInputs records terms that describe the unit's inputs for model extraction (replay).
func (e *Engine) describeInputs(st *State, fn *ssa.Function) {
	var extra []InputTerm
	for _, in := range st.inputs {
		var p *ssa.Parameter
		for _, q := range fn.Params {
			if q.Name() == in.Name {
				p = q
			}
		}
		if p == nil {
			continue
		}
		switch t := p.Type().Underlying().(type) {
		case *types.Slice:
			hn, hs := elemHeapName(t.Elem())
			if sortOf(t.Elem()) == "Int" {
				h := st.heap(hn, hs)
				extra = append(extra, InputTerm{in.Name + ".len", slLen(in.Term)}, InputTerm{in.Name + ".cap", slCap(in.Term)}, InputTerm{in.Name + ".nil", eq(slRef(in.Term), "0")})
				for i := 0; i < 48; i++ {
					extra = append(extra, InputTerm{fmt.Sprintf("%s[%d]", in.Name, i), sel(sel(h, slRef(in.Term)), ix(slOff(in.Term), itoa(int64(i))))})
				}
			}
		case *types.Basic:
			if t.Info()&types.IsString != 0 {
				extra = append(extra, InputTerm{in.Name + ".len", strLen(in.Term)})
				for i := 0; i < 48; i++ {
					extra = append(extra, InputTerm{fmt.Sprintf("%s[%d]", in.Name, i), sel(strArr(in.Term), itoa(int64(i)))})
				}
			}
		case *types.Pointer:
			if s, ok := t.Elem().Underlying().(*types.Struct); ok {
				extra = append(extra, InputTerm{in.Name + ".nil", eq(in.Term, "0")})
				for i := 0; i < s.NumFields(); i++ {
					f := s.Field(i)
					hn, hs := fieldHeapName(t.Elem(), s, i)
					fv := sel(st.heap(hn, hs), in.Term)
					switch ft := f.Type().Underlying().(type) {
					case *types.Basic:
						if ft.Info()&types.IsString != 0 {
							extra = append(extra, InputTerm{in.Name + "." + f.Name() + ".len", strLen(fv)})
							for k := 0; k < 16; k++ {
								extra = append(extra, InputTerm{fmt.Sprintf("%s.%s[%d]", in.Name, f.Name(), k), sel(strArr(fv), itoa(int64(k)))})
							}
						} else {
							extra = append(extra, InputTerm{in.Name + "." + f.Name(), fv})
						}
					case *types.Slice:
						if sortOf(ft.Elem()) == "Int" {
							en, es := elemHeapName(ft.Elem())
							h := st.heap(en, es)
							extra = append(extra, InputTerm{in.Name + "." + f.Name() + ".len", slLen(fv)}, InputTerm{in.Name + "." + f.Name() + ".cap", slCap(fv)}, InputTerm{in.Name + "." + f.Name() + ".nil", eq(slRef(fv), "0")})
							for k := 0; k < 40; k++ {
								extra = append(extra, InputTerm{fmt.Sprintf("%s.%s[%d]", in.Name, f.Name(), k), sel(sel(h, slRef(fv)), ix(slOff(fv), itoa(int64(k))))})
							}
						}
					case *types.Pointer, *types.Map, *types.Signature, *types.Chan:
						extra = append(extra, InputTerm{in.Name + "." + f.Name() + ".nil", eq(fv, "0")})
					case *types.Interface:
						extra = append(extra, InputTerm{in.Name + "." + f.Name() + ".nil", eq(ifTyp(fv), "0")})
					}
				}
			}
		}
	}
	st.inputs = append(st.inputs, extra...)
}

// ---------------------------------------------------------------------------------------
// lemma units: straight-line sequences of contract calls and assertions

func (e *Engine) runLemmaUnit(u *Unit) {
	lm := u.Lemma
	e.cur = u
	st := e.newState(u)
	pkg := e.typesPkg(lm.Pkg)
	env := &Env{eng: e, st: st, pkg: pkg, vars: map[string]Val{}, where: "lemma " + lm.Name, oldSnap: st.unitOld, hasOld: true}
	for _, p := range lm.Params {
		t := env.typeOf(p.Type)
		if t == nil {
			env.errf("unknown type %q", p.Type)
			t = types.Typ[types.Int]
		}
		v := st.freshVal("in_"+p.Name, t)
		st.assumeAllocated(v.S, t)
		env.vars[p.Name] = v
		st.inputs = append(st.inputs, InputTerm{Name: p.Name, Term: v.S})
	}
	for _, rq := range env.expand(lm.Requires) {
		st.assume(rq.term)
	}
	if lm.Induction != "" {
		// induction on the integer parameter: for values > 0 the statement at value-1 (same other parameters) is the
		// hypothesis; values <= 0 are proved without one. Sound by induction on max(value, 0).
		iv, ok := env.vars[lm.Induction]
		if !ok || sortOf(iv.T) != "Int" {
			env.errf("induction needs an integer parameter, got %q", lm.Induction)
		} else {
			henv := &Env{eng: e, st: st, pkg: pkg, vars: map[string]Val{}, where: "induction hypothesis of " + lm.Name, oldSnap: st.unitOld, hasOld: true}
			for k, v := range env.vars {
				henv.vars[k] = v
			}
			henv.vars[lm.Induction] = Val{S: sub(iv.S, "1"), T: iv.T}
			var pre, post []string
			for _, rq := range henv.expand(lm.Requires) {
				pre = append(pre, rq.term)
			}
			for _, s := range lm.Steps {
				if s.Kind == "assert" {
					post = append(post, henv.evalBool(s.Expr))
				} else {
					env.errf("an induction lemma may contain requires and assert clauses only")
				}
			}
			st.assume(implies(fmt.Sprintf("(> %s 0)", iv.S), implies(and(pre...), and(post...))))
		}
	}
	st.oblige("cover-pre", u.Name+"#cover-pre", "false", token.NoPos)
	e.obligations[len(e.obligations)-1].ExpectSat = true
	nassert := 0
	for _, s := range lm.Steps {
		switch s.Kind {
		case "let":
			fn := e.fnByName[lm.Pkg][s.Callee]
			if fn == nil {
				if i := strings.Index(s.Callee, "."); i > 0 {
					for _, alt := range []string{"(" + s.Callee[:i] + ")" + s.Callee[i:], "(*" + s.Callee[:i] + ")" + s.Callee[i:]} {
						if f := e.fnByName[lm.Pkg][alt]; f != nil {
							fn = f
						}
					}
				}
			}
			if fn == nil {
				env.errf("lemma calls unknown function %q", s.Callee)
				continue
			}
			ct := e.contractFor(fn)
			if ct == nil {
				env.errf("lemma calls %q which has no contract", s.Callee)
				continue
			}
			var args []Val
			for i, a := range s.Args {
				v := env.eval(a)
				if i < len(fn.Params) {
					v = env.coerce(v, fn.Params[i].Type())
					v.T = fn.Params[i].Type()
				}
				args = append(args, v)
			}
			cenv := &Env{eng: e, st: st, pkg: pkg, vars: map[string]Val{}, where: "lemma " + lm.Name + " call " + s.Callee}
			e.bindParams(cenv, fn, args)
			for i, rq := range ct.Requires {
				nm := rq.Name
				if nm == "" {
					nm = fmt.Sprintf("%d", i)
				}
				st.check("requires", fmt.Sprintf("%s#requires@%s[%s]", u.Name, s.Callee, nm), cenv.evalBool(rq.Expr), token.NoPos)
			}
			snap := make(map[string]string, len(st.heaps))
			for k, v := range st.heaps {
				snap[k] = v
			}
			st.bumpFrontier()
			e.havocModifies(st, cenv, ct)
			res := e.freshResult(st, "res_"+fn.Name(), fn.Signature.Results())
			post := &Env{eng: e, st: st, pkg: pkg, vars: cenv.vars, oldSnap: snap, hasOld: true, where: "ensures of " + s.Callee, havocNew: !ct.HasMod}
			e.bindResults(post, fn, res)
			for _, en := range ct.Ensures {
				st.assume(post.evalBool(en.Expr))
			}
			e.calledByContract[s.Callee] = true
			if len(s.Vars) == 1 {
				env.vars[s.Vars[0]] = res
			} else {
				for i, v := range s.Vars {
					if i < len(res.Tup) && v != "_" {
						env.vars[v] = res.Tup[i]
					}
				}
			}
		case "assert":
			nm := s.Name
			if nm == "" {
				nm = fmt.Sprintf("%d", nassert)
			}
			nassert++
			st.check("lemma", fmt.Sprintf("%s#assert[%s]", u.Name, nm), env.evalBool(s.Expr), token.NoPos)
		case "suppose":
			// a hypothesis of the lemma that speaks about an intermediate state (after the calls made so far)
			st.assume(env.evalBool(s.Expr))
			st.oblige("cover-pre", fmt.Sprintf("%s#cover-suppose[%s]", u.Name, s.Name), "false", token.NoPos)
			e.obligations[len(e.obligations)-1].ExpectSat = true
		}
	}
}

func (e *Engine) unitsFor(pkgPath string, names []string) ([]*Unit, []string) {
	var units []*Unit
	var missing []string
	for _, n := range names {
		if strings.HasPrefix(n, "lemma:") {
			found := false
			if cf, ok := e.contracts[pkgPath]; ok {
				for _, l := range cf.Lemmas {
					if l.Name == n[6:] {
						units = append(units, &Unit{Name: e.shortPkg(pkgPath) + ".lemma:" + l.Name, Lemma: l, Pkg: pkgPath})
						found = true
					}
				}
			}
			if !found {
				missing = append(missing, n)
			}
			continue
		}
		fn := e.fnByName[pkgPath][n]
		if fn == nil {
			missing = append(missing, n)
			continue
		}
		units = append(units, &Unit{Name: funcDisplayName(fn), Fn: fn, Contract: e.contractFor(fn), Pkg: pkgPath})
	}
	return units, missing
}

func (e *Engine) shortPkg(path string) string {
	if sp, ok := e.spkgs[path]; ok {
		return sp.Pkg.Name()
	}
	return path
}

// expandUnitNames: "all" = every function of the package; "methods:T" = every method of T and the closures inside.
func (e *Engine) expandUnitNames(pkgPath string, names []string) []string {
	var out []string
	seen := map[string]bool{}
	add := func(n string) {
		if !seen[n] {
			seen[n] = true
			out = append(out, n)
		}
	}
	for _, n := range names {
		switch {
		case n == "all":
			for _, m := range e.allFunctionNames(pkgPath) {
				add(m)
			}
		case strings.HasPrefix(n, "methods:"):
			t := n[len("methods:"):]
			for _, m := range e.allFunctionNames(pkgPath) {
				if strings.HasPrefix(m, "(*"+t+").") || strings.HasPrefix(m, "("+t+").") {
					add(m)
				}
			}
		default:
			add(n)
		}
	}
	return out
}

func (e *Engine) allFunctionNames(pkgPath string) []string {
	var out []string
	for n, fn := range e.fnByName[pkgPath] {
		if ct := e.contractFor(fn); ct != nil && ct.Inline {
			// verified in the context of its callers; allContractErrors reports it if no caller executed it
			e.inlineOnly[funcDisplayName(fn)] = true
			continue
		}
		if fn.Name() == "init" || strings.HasPrefix(fn.Name(), "init#") {
			continue // package initialisers run before any goroutine exists
		}
		out = append(out, n)
	}
	sort.Strings(out)
	return out
}

// replayInfo records how the unit can be called from an in-package test.
func (e *Engine) replayInfo(u *Unit, o *Obligation) {
	fn := u.Fn
	if fn == nil || fn.Parent() != nil || fn.Pkg == nil {
		return
	}
	name := fn.Name()
	if recv := fn.Signature.Recv(); recv != nil {
		rt := recv.Type()
		ptr := ""
		if p, ok := rt.(*types.Pointer); ok {
			rt = p.Elem()
			ptr = "*"
		}
		n, ok := rt.(*types.Named)
		if !ok {
			return
		}
		if ptr != "" {
			name = "(*" + n.Obj().Name() + ")." + fn.Name()
		} else {
			name = n.Obj().Name() + "." + fn.Name()
		}
	}
	o.ReplayFn = name
	o.ReplayModule = e.module
	o.ReplayPkgName = fn.Pkg.Pkg.Name()
	pos := e.fset.Position(fn.Pos())
	if rel, err := filepath.Rel(e.repo, filepath.Dir(pos.Filename)); err == nil {
		o.ReplayPkgDir = rel
	}
	for _, p := range fn.Params {
		o.ReplayParams = append(o.ReplayParams, p.Name())
	}
}
