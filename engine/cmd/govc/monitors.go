package main

// Lock sets, monitors (havoc at acquire, invariant at release), guarded-by ownership checks, sync.Once.

import (
	"sort"
	"fmt"
	"go/token"
	"go/types"
	"strings"

	"golang.org/x/tools/go/ssa"
)

func lockKeyOf(p Val) (key string, base string, stt types.Type, field string, ok bool) {
	if p.A == nil {
		return p.S, p.S, nil, "", p.S != "" && p.S != "0"
	}
	a := p.A
	switch a.Kind {
	case AField:
		f := a.ST.Field(a.Field).Name()
		k := a.Base + "." + f
		for _, s := range a.Path {
			if s.AT == nil {
				k += "." + s.ST.Field(s.Field).Name()
			}
		}
		return k, a.Base, a.STT, f, true
	case ACell:
		return "cell:" + a.Base, a.Base, nil, "", true
	case ALocal:
		return "local:" + a.Alloc.Name(), "", nil, "", true
	}
	return "", "", nil, "", false
}

func (e *Engine) monitorFor(stt types.Type, field string) *Monitor {
	n := namedOf(stt)
	if n == nil || n.Obj().Pkg() == nil {
		return nil
	}
	cf := e.contracts[n.Obj().Pkg().Path()]
	if cf == nil {
		return nil
	}
	for _, m := range cf.Monitors {
		if m.Type == n.Obj().Name() && m.Lock == field {
			return m
		}
	}
	return nil
}

func (e *Engine) monitorsOfType(stt types.Type) []*Monitor {
	n := namedOf(stt)
	if n == nil || n.Obj().Pkg() == nil {
		return nil
	}
	cf := e.contracts[n.Obj().Pkg().Path()]
	if cf == nil {
		return nil
	}
	var out []*Monitor
	for _, m := range cf.Monitors {
		if m.Type == n.Obj().Name() {
			out = append(out, m)
		}
	}
	return out
}

func (e *Engine) monitorEnv(st *State, m *Monitor, base string, stt types.Type) *Env {
	env := &Env{eng: e, st: st, pkg: e.typesPkg(m.Pkg), vars: map[string]Val{}, oldSnap: st.unitOld, hasOld: true, where: "monitor " + m.Type + "." + m.Lock}
	env.vars[m.RecvVar] = Val{S: base, T: types.NewPointer(stt)}
	return env
}

// guardedLocations: heaps/rows protected by a monitor for the object at base.
func (e *Engine) havocGuarded(st *State, m *Monitor, base string, stt types.Type) {
	s := stt.Underlying().(*types.Struct)
	for _, g := range m.Guards {
		i := findField(s, g)
		if i < 0 {
			// ghost field
			if ts := e.typeSpecFor(stt); ts != nil {
				for _, gf := range ts.Ghost {
					if gf.Name == g {
						gt := e.ghostType(ts, gf)
						hn := "GF!" + ts.Name + "!" + g
						hs := fmt.Sprintf("(Array Int %s)", gt.sort)
						v := st.freshConst("mon_"+g, gt.sort)
						st.setHeap(hn, hs, store(st.heap(hn, hs), base, v))
					}
				}
			}
			continue
		}
		ft := s.Field(i).Type()
		hn, hs := fieldHeapName(stt, s, i)
		var v string
		if _, isMap := ft.Underlying().(*types.Map); isMap {
			// map-typed guarded fields are reference-stable (stores to them are only allowed in initialisers: see
			// guardedFieldStore); the lock protects the contents
			v = sel(st.heap(hn, hs), base)
		} else {
			// the field itself
			v = st.freshConst("mon_"+g, sortOf(ft))
			st.assume(typeInv(v, ft))
			st.setHeap(hn, hs, store(st.heap(hn, hs), base, v))
			st.assumeAllocated(v, ft)
		}
		// what it owns: contents of the map / slice it refers to
		switch t := ft.Underlying().(type) {
		case *types.Map:
			dn, vn, ds, vs, ks := mapHeapNames(t)
			d := st.freshConst("mon_dom", fmt.Sprintf("(Array %s Bool)", ks))
			st.setHeap(dn, ds, store(st.heap(dn, ds), v, d))
			vv := st.freshConst("mon_vals", fmt.Sprintf("(Array %s %s)", ks, sortOf(t.Elem())))
			st.setHeap(vn, vs, store(st.heap(vn, vs), v, vv))
			// maps of maps: inner maps are owned too (their contents are unknown after acquire)
			if it, ok := t.Elem().Underlying().(*types.Map); ok {
				idn, ivn, ids, ivs, _ := mapHeapNames(it)
				if idn != dn {
					st.heap(idn, ids)
					st.heap(ivn, ivs)
					st.havocHeap(idn)
					st.havocHeap(ivn)
				}
			}
		case *types.Slice:
			en, es := elemHeapName(t.Elem())
			arr := st.freshConst("mon_row", fmt.Sprintf("(Array Int %s)", sortOf(t.Elem())))
			st.setHeap(en, es, store(st.heap(en, es), slRef(v), arr))
		}
	}
}

func (e *Engine) acquire(st *State, fr *Frame, p Val, mode string, pos token.Pos, ins ssa.Instruction) {
	key, base, stt, field, ok := lockKeyOf(p)
	if !ok {
		return
	}
	for _, l := range st.locks {
		if l.key == key && (mode == "W" || l.mode == "W") {
			name := e.siteName(st, fr, "relock", pos, ins)
			st.oblige("relock", name, "false", pos)
		}
	}
	hl := heldLock{key: key, mode: mode}
	if stt != nil {
		if m := e.monitorFor(stt, field); m != nil {
			hl.mon = m
			hl.base = base
			hl.stt = stt
			if !(st.unit.Contract != nil && st.unit.Contract.Seq) {
				e.havocGuarded(st, m, base, stt)
			} else {
				e.assumptions["sequential reading (clause seq): guarded state is not havocked at lock acquisition; the result quantifies over histories of calls, not over interleavings"] = true
			}
			env := e.monitorEnv(st, m, base, stt)
			for _, inv := range m.Invs {
				st.assume(env.evalBool(inv.Expr))
			}
			if !(st.unit.Contract != nil && st.unit.Contract.Seq) {
				// what this path knew when it last released the lock is related to the new state by the stable clauses
				if prev, ok := st.lastRelease[key]; ok {
					e.relyStable(st, m, base, stt, prev)
				}
			}
			hl.snap = snapshotHeaps(st)
		}
	}
	st.locks = append(st.locks, hl)
}

func (e *Engine) release(st *State, fr *Frame, p Val, mode string, pos token.Pos, ins ssa.Instruction) {
	key, _, _, _, ok := lockKeyOf(p)
	if !ok {
		return
	}
	for i := len(st.locks) - 1; i >= 0; i-- {
		l := st.locks[i]
		if l.key == key && l.mode == mode {
			if l.mon != nil && mode == "W" {
				env := e.monitorEnv(st, l.mon, l.base, l.stt)
				for j, inv := range l.mon.Invs {
					nm := inv.Name
					if nm == "" {
						nm = fmt.Sprintf("%d", j)
					}
					name := e.siteName(st, fr, "monitor-inv["+nm+"]", pos, ins)
					st.oblige("monitor-inv", name, env.evalBool(inv.Expr), pos)
				}
				if st.lastRelease == nil {
					st.lastRelease = map[string]map[string]string{}
				} else {
					cp := make(map[string]map[string]string, len(st.lastRelease))
					for k, v := range st.lastRelease {
						cp[k] = v
					}
					st.lastRelease = cp
				}
				st.lastRelease[key] = snapshotHeaps(st)
			}
			st.locks = append(st.locks[:i:i], st.locks[i+1:]...)
			return
		}
	}
	name := e.siteName(st, fr, "unlock-unheld", pos, ins)
	st.oblige("unlock-unheld", name, "false", pos)
}

func (e *Engine) checkLocksReleased(st *State, fr *Frame, pos token.Pos) {
	entry := map[string]bool{}
	for _, k := range st.unit.entryLocks {
		entry[k] = true
	}
	for _, l := range st.locks {
		if !entry[l.key] {
			st.oblige("lock-balance", st.unit.Name+"#lock-balance("+lockDisplay(l.key)+")", "false", pos)
		}
	}
}

func lockDisplay(k string) string {
	if i := strings.LastIndex(k, "."); i >= 0 {
		return k[i+1:]
	}
	return k
}

// holds: "holds <lockexpr>" in a contract means the lock is held (W) at entry and at exit.
func (e *Engine) assumeHolds(st *State, fn *ssa.Function, ct *Contract, env *Env) {
	for _, h := range ct.Holds {
		mode := "W"
		if strings.HasPrefix(h, "R:") {
			mode = "R"
			h = h[2:]
		}
		ex, err := parseSpecExpr(h)
		if err != nil || ex.Op != "sel" {
			env.errf("holds needs x.lockfield: %q", h)
			continue
		}
		x := env.eval(ex.Args[0])
		key := x.S + "." + ex.Name
		hl := heldLock{key: key, mode: mode}
		if m := e.monitorFor(deref(x.T), ex.Name); m != nil {
			hl.mon, hl.base, hl.stt = m, x.S, deref(x.T)
			menv := e.monitorEnv(st, m, x.S, deref(x.T))
			for _, inv := range m.Invs {
				st.assume(menv.evalBool(inv.Expr))
			}
		}
		st.locks = append(st.locks, hl)
		st.unit.entryLocks = append(st.unit.entryLocks, key)
	}
}

func (e *Engine) checkHolds(st *State, fr *Frame, callee *ssa.Function, ct *Contract, env *Env, pos token.Pos, ins ssa.Instruction) {
	for _, h := range ct.Holds {
		mode := "W"
		if strings.HasPrefix(h, "R:") {
			mode = "R"
			h = h[2:]
		}
		ex, err := parseSpecExpr(h)
		if err != nil || ex.Op != "sel" {
			continue
		}
		x := env.eval(ex.Args[0])
		key := x.S + "." + ex.Name
		held := false
		for _, l := range st.locks {
			if l.key == key && (l.mode == "W" || mode == "R") {
				held = true
			}
		}
		name := e.siteName(st, fr, "requires-held@"+funcDisplayName(callee)+"["+ex.Name+"]", pos, ins)
		if held {
			st.oblige("requires-held", name, "true", pos)
		} else {
			st.oblige("requires-held", name, "false", pos)
		}
	}
}

// ---------------------------------------------------------------------------------------
// guarded-by checks

func (e *Engine) ownerOf(stt types.Type, field string) string {
	ts := e.typeSpecFor(stt)
	if ts == nil {
		return ""
	}
	return ts.Owner[field]
}

func (e *Engine) lockCheckAddr(st *State, fr *Frame, p Val, write bool, pos token.Pos, ins ssa.Instruction) {
	if p.A == nil || p.A.Kind != AField {
		return
	}
	if write && len(p.A.Path) == 0 {
		e.guardedFieldStore(st, fr, p.A, pos, ins)
	}
	e.lockCheckField(st, fr, p.A.STT, p.A.ST.Field(p.A.Field).Name(), p.A.Base, write, pos, ins)
}

func (e *Engine) lockCheckField(st *State, fr *Frame, stt types.Type, field, base string, write bool, pos token.Pos, ins ssa.Instruction) {
	if !e.checkOwnership {
		return
	}
	own := e.ownerOf(stt, field)
	if own == "" {
		return
	}
	fs := strings.Fields(own)
	switch fs[0] {
	case "guarded_by":
		if len(fs) < 2 {
			return
		}
		key := base + "." + fs[1]
		held := false
		for _, l := range st.locks {
			if l.key == key && (l.mode == "W" || !write) {
				held = true
			}
		}
		// accesses inside the constructor-like function named after "or_in" are exempt: guarded_by lock or_in Init
		exempt := false
		for i := 2; i+1 < len(fs); i += 2 {
			if fs[i] == "or_in" && e.inFunctionNamed(st, fs[i+1]) {
				held = true
				exempt = true
			}
		}
		name := e.siteName(st, fr, "guarded-by["+field+"]", pos, ins)
		// frozen_when <expr>: once expr holds no writer is enabled any more, so reads need no lock. Checked on both
		// sides: a read without the lock proves expr; a write (under the lock) proves that expr does not hold yet.
		var frozen *SExpr
		if i := strings.Index(own, "frozen_when "); i >= 0 {
			ex, err := parseSpecExpr(own[i+len("frozen_when "):])
			if err != nil {
				e.specErrors["frozen_when of "+field+": "+err.Error()] = true
			} else {
				frozen = ex
			}
		}
		frozenTerm := func() string {
			ts := e.typeSpecFor(stt)
			rv := "this"
			if ts != nil && ts.RecvVar != "" {
				rv = ts.RecvVar
			}
			env := &Env{eng: e, st: st, pkg: e.typesPkg(ts.Pkg), vars: map[string]Val{}, where: "frozen_when of " + field}
			env.vars[rv] = Val{S: base, T: types.NewPointer(stt)}
			return env.evalBool(frozen)
		}
		if held {
			if frozen != nil && write && !exempt {
				st.oblige("guarded-by", e.siteName(st, fr, "not-frozen["+field+"]", pos, ins), not(frozenTerm()), pos)
			}
			e.trivial++
			e.guardedOK++
			return
		}
		if frozen != nil && !write {
			st.oblige("guarded-by", name, frozenTerm(), pos)
			return
		}
		st.oblige("guarded-by", name, "false", pos)
	case "owned_by", "owned_by_caller":
		// confined to one goroutine by the protocol of use: not checkable by a lock set; listed as an assumption
		e.assumptions["ownership: "+namedOf(stt).Obj().Name()+"."+field+" is "+own+" (confinement is assumed, not checked)"] = true
	case "immutable_after", "config":
		if !write {
			return
		}
		ok := false
		if strings.HasPrefix(base, "new_") {
			ok = true // the object was allocated by this unit and is not shared yet
		}
		for _, f := range fs[1:] {
			if e.inFunctionNamed(st, f) {
				ok = true
			}
		}
		name := e.siteName(st, fr, "immutable["+field+"]", pos, ins)
		if ok {
			e.trivial++
			e.guardedOK++
			return
		}
		st.oblige("immutable", name, "false", pos)
	case "atomic":
		if e.inAtomic {
			e.guardedOK++
			return
		}
		name := e.siteName(st, fr, "atomic["+field+"]", pos, ins)
		st.oblige("atomic", name, "false", pos)
	}
}

func (e *Engine) inFunctionNamed(st *State, name string) bool {
	for _, f := range st.frames {
		fn := f.fn
		for fn != nil {
			if fn.Name() == name || strings.HasSuffix(funcDisplayName(fn), "."+name) {
				return true
			}
			fn = fn.Parent()
		}
	}
	return false
}

func (e *Engine) atomicAccess(st *State, fr *Frame, p Val, pos token.Pos, ins ssa.Instruction) {
	if p.A == nil || p.A.Kind != AField || !e.checkOwnership {
		return
	}
	own := e.ownerOf(p.A.STT, p.A.ST.Field(p.A.Field).Name())
	if own == "" || strings.HasPrefix(own, "atomic") {
		e.guardedOK++
		return
	}
	name := e.siteName(st, fr, "atomic-on-nonatomic["+p.A.ST.Field(p.A.Field).Name()+"]", pos, ins)
	st.oblige("atomic", name, "false", pos)
}

// map accesses: the map value was loaded from a field; find that field.
func (e *Engine) originField(v ssa.Value) (*ssa.FieldAddr, bool) {
	switch x := v.(type) {
	case *ssa.UnOp:
		if x.Op == token.MUL {
			if fa, ok := x.X.(*ssa.FieldAddr); ok {
				return fa, true
			}
		}
	case *ssa.ChangeType:
		return e.originField(x.X)
	}
	return nil, false
}

func (e *Engine) lockCheckMap(st *State, fr *Frame, m ssa.Value, write bool, pos token.Pos, ins ssa.Instruction) {
	if !e.checkOwnership {
		return
	}
	fa, ok := e.originField(m)
	if !ok {
		return
	}
	base, bound := fr.regs[fa.X]
	if !bound {
		return
	}
	stt := deref(fa.X.Type())
	s := stt.Underlying().(*types.Struct)
	e.lockCheckField(st, fr, stt, s.Field(fa.Field).Name()+"[]", base.S, write, pos, ins)
}

func (e *Engine) lockCheckMapVal(st *State, fr *Frame, ins ssa.Instruction, write bool, pos token.Pos) {
	if !e.checkOwnership || fr == nil {
		return
	}
	if call, ok := ins.(ssa.CallInstruction); ok && len(call.Common().Args) > 0 {
		e.lockCheckMap(st, fr, call.Common().Args[0], write, pos, ins)
	}
}

// ---------------------------------------------------------------------------------------
// type invariants (object invariants assumed at entry of methods, checked at exit)

func (e *Engine) assumeTypeInvariants(st *State, fn *ssa.Function, env *Env) {
	// captured variables of closure units
	for _, fv := range fn.FreeVars {
		v, ok := env.vars[fv.Name()]
		if !ok || v.T == nil {
			continue
		}
		if _, isPtr := v.T.Underlying().(*types.Pointer); !isPtr {
			continue
		}
		ts := e.typeSpecFor(deref(v.T))
		if ts == nil || len(ts.Invs) == 0 {
			continue
		}
		tenv := &Env{eng: e, st: st, pkg: e.typesPkg(ts.Pkg), vars: map[string]Val{ts.RecvVar: v}, where: "invariant of " + ts.Name}
		for _, inv := range ts.Invs {
			st.assume(implies(not(eq(v.S, "0")), tenv.evalBool(inv.Expr)))
		}
	}
	for _, p := range fn.Params {
		ts := e.typeSpecFor(deref(p.Type()))
		if ts == nil || len(ts.Invs) == 0 {
			continue
		}
		if _, isPtr := p.Type().Underlying().(*types.Pointer); !isPtr {
			continue
		}
		tenv := &Env{eng: e, st: st, pkg: e.typesPkg(ts.Pkg), vars: map[string]Val{ts.RecvVar: env.vars[p.Name()]}, where: "invariant of " + ts.Name}
		for _, inv := range ts.Invs {
			st.assume(implies(not(eq(env.vars[p.Name()].S, "0")), tenv.evalBool(inv.Expr)))
		}
	}
}

func (e *Engine) checkTypeInvariantsAtExit(st *State, fr *Frame, env *Env, pos token.Pos) {
	fn := st.unit.Fn
	if fn == nil || st.unit.Contract == nil || !st.unit.Contract.Unit {
		return
	}
	for _, p := range fn.Params {
		ts := e.typeSpecFor(deref(p.Type()))
		if ts == nil || len(ts.Invs) == 0 {
			continue
		}
		if _, isPtr := p.Type().Underlying().(*types.Pointer); !isPtr {
			continue
		}
		tenv := &Env{eng: e, st: st, pkg: e.typesPkg(ts.Pkg), vars: map[string]Val{ts.RecvVar: env.vars[p.Name()]}, where: "invariant of " + ts.Name}
		for i, inv := range ts.Invs {
			nm := inv.Name
			if nm == "" {
				nm = fmt.Sprintf("%d", i)
			}
			st.oblige("type-inv", fmt.Sprintf("%s#invariant[%s.%s]", st.unit.Name, ts.Name, nm), tenv.evalBool(inv.Expr), pos)
		}
	}
}

// ---------------------------------------------------------------------------------------
// sync models

func init() {
	reg1 := func(name string, mode string, acq bool) {
		libModels[name] = func(e *Engine, st *State, fr *Frame, args []Val, resT types.Type, pos token.Pos, ins ssa.Instruction) Val {
			used(e, "sync.Mutex/RWMutex: mutual exclusion; guarded state is havocked at acquire and the monitor invariant re-proved at release")
			if acq {
				e.acquire(st, fr, args[0], mode, pos, ins)
			} else {
				e.release(st, fr, args[0], mode, pos, ins)
			}
			return Val{}
		}
	}
	reg1("(*sync.Mutex).Lock", "W", true)
	reg1("(*sync.Mutex).Unlock", "W", false)
	reg1("(*sync.RWMutex).Lock", "W", true)
	reg1("(*sync.RWMutex).Unlock", "W", false)
	reg1("(*sync.RWMutex).RLock", "R", true)
	reg1("(*sync.RWMutex).RUnlock", "R", false)
	libModels["(*sync.Once).Do"] = func(e *Engine, st *State, fr *Frame, args []Val, resT types.Type, pos token.Pos, ins ssa.Instruction) Val {
		used(e, "sync.Once.Do(f): either f ran to completion earlier (its declared 'once ... ensures' clauses hold) or it runs now, inline")
		e.modelOnce(st, fr, args[0], args[1], pos, ins)
		return Val{}
	}
	libModels["(*sync.Cond).Signal"] = func(e *Engine, st *State, fr *Frame, args []Val, resT types.Type, pos token.Pos, ins ssa.Instruction) Val {
		used(e, "sync.Cond.Signal/Broadcast: no effect on verified state")
		return Val{}
	}
	libModels["(*sync.Cond).Broadcast"] = libModels["(*sync.Cond).Signal"]
	libModels["(*sync.Cond).Wait"] = func(e *Engine, st *State, fr *Frame, args []Val, resT types.Type, pos token.Pos, ins ssa.Instruction) Val {
		used(e, "sync.Cond.Wait: releases and re-acquires the associated lock (monitor invariant checked, guarded state havocked)")
		e.modelCondWait(st, fr, args[0], pos, ins)
		return Val{}
	}
	libModels["(*sync.WaitGroup).Add"] = func(e *Engine, st *State, fr *Frame, args []Val, resT types.Type, pos token.Pos, ins ssa.Instruction) Val {
		used(e, "sync.WaitGroup: no effect on verified state")
		return Val{}
	}
	libModels["(*sync.WaitGroup).Done"] = libModels["(*sync.WaitGroup).Add"]
	libModels["(*sync.WaitGroup).Wait"] = libModels["(*sync.WaitGroup).Add"]
}

func (e *Engine) onceSpec(stt types.Type, field string) *OnceSpec {
	n := namedOf(stt)
	if n == nil || n.Obj().Pkg() == nil {
		return nil
	}
	cf := e.contracts[n.Obj().Pkg().Path()]
	if cf == nil {
		return nil
	}
	for _, o := range cf.Onces {
		if o.Type == n.Obj().Name() && o.Field == field {
			return o
		}
	}
	return nil
}

func (e *Engine) modelOnce(st *State, fr *Frame, once Val, f Val, pos token.Pos, ins ssa.Instruction) {
	_, base, stt, field, ok := lockKeyOf(once)
	var spec *OnceSpec
	if ok && stt != nil {
		spec = e.onceSpec(stt, field)
	}
	mkEnv := func(s *State) *Env {
		env := &Env{eng: e, st: s, pkg: e.typesPkg(spec.Pkg), vars: map[string]Val{}, where: "once " + spec.Type + "." + spec.Field}
		env.vars[spec.RecvVar] = Val{S: base, T: types.NewPointer(stt)}
		return env
	}
	// branch A: already done
	if spec != nil {
		other := e.fork(st)
		if other != nil {
			env := mkEnv(other)
			for _, en := range spec.Ensures {
				other.assume(env.evalBool(en.Expr))
			}
			other.trace = append(other.trace, "once:done")
			e.run(other)
		}
	} else {
		e.assumptions["sync.Once.Do without a 'once' clause: only the first-call branch is explored for "+field] = true
	}
	// branch B: runs now
	st.trace = append(st.trace, "once:first")
	if spec != nil {
		env := mkEnv(st)
		for _, c := range spec.FirstPre {
			e.assumptions["state before the first sync.Once call of "+spec.Type+"."+spec.Field+" (assumed): "+c.Text] = true
			st.assume(env.evalBool(c.Expr))
		}
	}
	if f.C == nil {
		e.unknownCall(st, "callback:once.Do", nil, nil, false)
		return
	}
	nf := e.newFrame(f.C.Fn)
	nf.freeVars = f.C.Bindings
	for i, p := range f.C.Fn.Params {
		// bound method closures have no params beyond bindings
		_ = i
		_ = p
	}
	st.onceDepth++
	if spec == nil {
		nf.onReturn = func(s *State, results []Val) { s.onceDepth-- }
	}
	if spec != nil {
		nf.onReturn = func(s *State, results []Val) {
			s.onceDepth--
			env := mkEnv(s)
			for i, en := range spec.Ensures {
				nm := en.Name
				if nm == "" {
					nm = fmt.Sprintf("%d", i)
				}
				s.oblige("once-ensures", fmt.Sprintf("%s#once[%s.%s].%s", s.unit.Name, spec.Type, spec.Field, nm), env.evalBool(en.Expr), pos)
			}
		}
	}
	st.frames = append(st.frames, nf)
	e.inlined[funcDisplayName(f.C.Fn)] = true
}

func (e *Engine) modelCondWait(st *State, fr *Frame, cond Val, pos token.Pos, ins ssa.Instruction) {
	// the lock of the condition variable: by convention the field "lock" of the same object (L: &x.lock)
	_, base, stt, _, ok := lockKeyOf(cond)
	if !ok || stt == nil {
		return
	}
	for i := len(st.locks) - 1; i >= 0; i-- {
		l := st.locks[i]
		if strings.HasPrefix(l.key, base+".") && l.mode == "W" {
			if l.mon != nil {
				env := e.monitorEnv(st, l.mon, l.base, l.stt)
				for j, inv := range l.mon.Invs {
					nm := inv.Name
					if nm == "" {
						nm = fmt.Sprintf("%d", j)
					}
					name := e.siteName(st, fr, "monitor-inv["+nm+"]", pos, ins)
					st.oblige("monitor-inv", name, env.evalBool(inv.Expr), pos)
				}
				before := snapshotHeaps(st)
				e.havocGuarded(st, l.mon, l.base, l.stt)
				st.skipStable = true
				env = e.monitorEnv(st, l.mon, l.base, l.stt)
				for _, inv := range l.mon.Invs {
					st.assume(env.evalBool(inv.Expr))
				}
				e.relyStable(st, l.mon, l.base, l.stt, before)
				st.locks[i].snap = snapshotHeaps(st)
			}
			return
		}
	}
}

// guardedFieldStore: a map-typed field guarded by a monitor may only be assigned by an initialiser (inside a
// sync.Once closure or a function named by the field's immutable_after clause); monitors rely on that.
func (e *Engine) guardedFieldStore(st *State, fr *Frame, a *Addr, pos token.Pos, ins ssa.Instruction) {
	f := a.ST.Field(a.Field)
	if _, isMap := f.Type().Underlying().(*types.Map); !isMap {
		return
	}
	guarded := false
	for _, m := range e.monitorsOfType(a.STT) {
		for _, g := range m.Guards {
			if g == f.Name() {
				guarded = true
			}
		}
	}
	if !guarded {
		return
	}
	if st.onceDepth > 0 || strings.HasPrefix(a.Base, "new_") {
		return // initialisation of an object that is not shared yet
	}
	if own := e.ownerOf(a.STT, f.Name()); strings.HasPrefix(own, "immutable_after") {
		for _, fn := range strings.Fields(own)[1:] {
			if e.inFunctionNamed(st, fn) {
				return
			}
		}
	}
	name := e.siteName(st, fr, "guarded-field-store["+f.Name()+"]", pos, ins)
	st.oblige("guarded-field-store", name, "false", pos)
}

// ownershipComplete: in ownership mode every field of a struct type that carries ownership clauses must carry one
// (synchronisation primitives excepted); one obligation per field.
func (e *Engine) ownershipComplete(pkgPath string) {
	cf, ok := e.contracts[pkgPath]
	if !ok {
		return
	}
	pkg := e.spkgs[pkgPath]
	if pkg == nil {
		return
	}
	var names []string
	for n := range cf.Types {
		names = append(names, n)
	}
	sort.Strings(names)
	for _, n := range names {
		ts := cf.Types[n]
		if len(ts.Owner) == 0 {
			continue
		}
		obj := pkg.Pkg.Scope().Lookup(n)
		if obj == nil {
			continue
		}
		stt, ok := obj.Type().Underlying().(*types.Struct)
		if !ok {
			continue
		}
		for i := 0; i < stt.NumFields(); i++ {
			f := stt.Field(i)
			goal := "false"
			if _, has := ts.Owner[f.Name()]; has || isSyncPrimitive(f.Type()) {
				goal = "true"
			}
			if _, isMap := f.Type().Underlying().(*types.Map); isMap && goal == "true" {
				if _, has := ts.Owner[f.Name()+"[]"]; !has {
					goal = "false" // the contents of a map need their own clause
				}
			}
			e.addObligation(&Obligation{Name: fmt.Sprintf("%s.%s#ownership-complete[%s]", e.shortPkg(pkgPath), n, f.Name()), Kind: "ownership-complete",
				Func: "type " + e.shortPkg(pkgPath) + "." + n, Pos: e.posString(f.Pos()), Goal: goal})
		}
	}
}

func isSyncPrimitive(t types.Type) bool {
	n := namedOf(t)
	if n == nil || n.Obj().Pkg() == nil {
		return false
	}
	return n.Obj().Pkg().Path() == "sync" || n.Obj().Pkg().Path() == "sync/atomic"
}

func snapshotHeaps(st *State) map[string]string {
	m := make(map[string]string, len(st.heaps))
	for k, v := range st.heaps {
		m[k] = v
	}
	return m
}

// stableEnv evaluates a monitor's two-state clauses: old() refers to snap.
func (e *Engine) stableEnv(st *State, m *Monitor, base string, stt types.Type, snap map[string]string) *Env {
	env := e.monitorEnv(st, m, base, stt)
	env.oldSnap = snap
	env.hasOld = true
	return env
}

// guardedHeapNames: the heaps through which the state guarded by a monitor is reached.
func (e *Engine) guardedHeapNames(m *Monitor, stt types.Type) []string {
	s := stt.Underlying().(*types.Struct)
	var out []string
	for _, g := range m.Guards {
		i := findField(s, g)
		if i < 0 {
			if ts := e.typeSpecFor(stt); ts != nil {
				out = append(out, "GF!"+ts.Name+"!"+g)
			}
			continue
		}
		fh, _ := fieldHeapName(stt, s, i)
		out = append(out, fh)
		switch t := s.Field(i).Type().Underlying().(type) {
		case *types.Map:
			dn, vn, _, _, _ := mapHeapNames(t)
			out = append(out, dn, vn)
			if it, ok := t.Elem().Underlying().(*types.Map); ok {
				idn, ivn, _, _, _ := mapHeapNames(it)
				out = append(out, idn, ivn)
			}
		case *types.Slice:
			en, _ := elemHeapName(t.Elem())
			out = append(out, en)
		}
	}
	return out
}

// stableStep: an instruction executed under a monitor lock changed guarded state: the change must be one that the
// monitor's stable clauses allow (guarantee side of rely/guarantee; the relation is checked to be transitive once).
func (e *Engine) stableStep(st *State, fr *Frame, held []heldLock, before map[string]string, ins ssa.Instruction) {
	if st.skipStable {
		st.skipStable = false
		return
	}
	switch ins.(type) {
	case *ssa.Jump, *ssa.If:
		return // heaps change at a jump only when a loop header abstracts the iterations (each checked in the body)
	}
	for _, l := range held {
		if l.mon == nil || len(l.mon.Stable) == 0 || l.mode != "W" {
			continue
		}
		changed := false
		for _, h := range e.guardedHeapNames(l.mon, l.stt) {
			if before[h] != st.heaps[h] {
				changed = true
			}
		}
		if !changed {
			continue
		}
		e.stableTransitive(st, l)
		env := e.stableEnv(st, l.mon, l.base, l.stt, before)
		for j, c := range l.mon.Stable {
			nm := c.Name
			if nm == "" {
				nm = fmt.Sprintf("%d", j)
			}
			name := e.siteName(st, fr, "monitor-stable["+nm+"]", ins.Pos(), ins)
			st.oblige("monitor-stable", name, env.evalBool(c.Expr), ins.Pos())
		}
	}
}

// stableTransitive: R(s0,s1) and R(s1,s2) imply R(s0,s2) for the conjunction R of a monitor's stable clauses, over
// arbitrary guarded states (emitted once per monitor).
func (e *Engine) stableTransitive(st *State, l heldLock) {
	key := l.mon.Pkg + "." + l.mon.Type + "." + l.mon.Lock
	if e.stableDone[key] {
		return
	}
	e.stableDone[key] = true
	d := st.clone()
	d.quiet = 0
	s0 := snapshotHeaps(d)
	e.havocGuarded(d, l.mon, l.base, l.stt)
	s1 := snapshotHeaps(d)
	e.relyStable(d, l.mon, l.base, l.stt, s0)
	e.havocGuarded(d, l.mon, l.base, l.stt)
	e.relyStable(d, l.mon, l.base, l.stt, s1)
	env := e.stableEnv(d, l.mon, l.base, l.stt, s0)
	for j, c := range l.mon.Stable {
		nm := c.Name
		if nm == "" {
			nm = fmt.Sprintf("%d", j)
		}
		d.oblige("monitor-stable", fmt.Sprintf("%s.(*%s).%s#stable-transitive[%s]", e.shortPkg(l.mon.Pkg), l.mon.Type, l.mon.Lock, nm), env.evalBool(c.Expr), token.NoPos)
	}
}

// relyStable: other threads' critical sections ran between snap and now.
func (e *Engine) relyStable(st *State, m *Monitor, base string, stt types.Type, snap map[string]string) {
	if snap == nil || len(m.Stable) == 0 {
		return
	}
	env := e.stableEnv(st, m, base, stt, snap)
	for _, c := range m.Stable {
		st.assume(env.evalBool(c.Expr))
	}
}
