package main

// Finite table obligations for the tss-lib adapters (C19): the adapter's classification tables (msgURL2Round,
// broadcastMessages) are extracted from its source, the routing of every protocol message type is extracted from the
// source of the dependency (the IsBroadcast field of the MessageRouting literal in every New*Message constructor of
// <alg>/keygen/messages.go and <alg>/signing/messages.go), and every clause is decided by evaluating it on every row
// (the tables are finite: exhaustive evaluation is a complete decision procedure here).

import (
	"fmt"
	"go/ast"
	"go/parser"
	"go/token"
	"os"
	"os/exec"
	"path/filepath"
	"sort"
	"strconv"
	"strings"
)

type libMsg struct {
	url       string
	broadcast bool
	phase     string // keygen | signing
	pos       string
}

func stringMapLiteral(file *ast.File, name string) (map[string]string, bool) {
	out := map[string]string{}
	found := false
	ast.Inspect(file, func(n ast.Node) bool {
		vs, ok := n.(*ast.ValueSpec)
		if !ok {
			return true
		}
		for i, id := range vs.Names {
			if id.Name != name || i >= len(vs.Values) {
				continue
			}
			cl, ok := vs.Values[i].(*ast.CompositeLit)
			if !ok {
				continue
			}
			found = true
			for _, el := range cl.Elts {
				kv, ok := el.(*ast.KeyValueExpr)
				if !ok {
					continue
				}
				k, ok := kv.Key.(*ast.BasicLit)
				if !ok {
					continue
				}
				ks, _ := strconv.Unquote(k.Value)
				v := ""
				if bl, ok := kv.Value.(*ast.BasicLit); ok {
					v = bl.Value
				}
				out[ks] = v
			}
		}
		return true
	})
	return out, found
}

// libraryMessages reads the routing of every message constructor of one package of the dependency.
func libraryMessages(dir, alg, phase string) ([]libMsg, error) {
	path := filepath.Join(dir, alg, phase, "messages.go")
	fset := token.NewFileSet()
	f, err := parser.ParseFile(fset, path, nil, 0)
	if err != nil {
		return nil, err
	}
	var out []libMsg
	for _, d := range f.Decls {
		fd, ok := d.(*ast.FuncDecl)
		if !ok || fd.Recv != nil || !strings.HasPrefix(fd.Name.Name, "New") || fd.Body == nil {
			continue
		}
		var bc *bool
		typ := ""
		ast.Inspect(fd.Body, func(n ast.Node) bool {
			cl, ok := n.(*ast.CompositeLit)
			if !ok {
				return true
			}
			if se, ok := cl.Type.(*ast.SelectorExpr); ok && se.Sel.Name == "MessageRouting" {
				for _, el := range cl.Elts {
					if kv, ok := el.(*ast.KeyValueExpr); ok {
						if k, ok := kv.Key.(*ast.Ident); ok && k.Name == "IsBroadcast" {
							if v, ok := kv.Value.(*ast.Ident); ok {
								b := v.Name == "true"
								bc = &b
							}
						}
					}
				}
			}
			if id, ok := cl.Type.(*ast.Ident); ok && strings.HasSuffix(id.Name, "Message") || ok && strings.Contains(id.Name, "Message") {
				if typ == "" {
					typ = id.Name
				}
			}
			return true
		})
		if bc == nil || typ == "" {
			continue
		}
		out = append(out, libMsg{url: fmt.Sprintf("type.googleapis.com/binance.tsslib.%s.%s.%s", alg, phase, typ), broadcast: *bc, phase: phase, pos: fmt.Sprintf("%s:%d", path, fset.Position(fd.Pos()).Line)})
	}
	return out, nil
}

// tableObligations adds the C19 table obligations for one adapter ("tables:ecdsa" / "tables:eddsa").
func (e *Engine) tableObligations(repo, alg string) error {
	modDir := filepath.Join(repo, "mpc", "binance", alg)
	cmd := exec.Command("go", "list", "-m", "-f", "{{.Dir}}", "github.com/bnb-chain/tss-lib/v2")
	cmd.Dir = modDir
	cmd.Env = append(os.Environ(), "GOFLAGS=-mod=mod", "GOPROXY=off", "GOSUMDB=off", "GOTOOLCHAIN=local")
	outb, err := cmd.Output()
	if err != nil {
		return fmt.Errorf("cannot locate the tss-lib dependency of %s: %v", modDir, err)
	}
	libDir := strings.TrimSpace(string(outb))
	fset := token.NewFileSet()
	af, err := parser.ParseFile(fset, filepath.Join(modDir, "mpc.go"), nil, 0)
	if err != nil {
		return err
	}
	rounds, ok1 := stringMapLiteral(af, "msgURL2Round")
	bcast, ok2 := stringMapLiteral(af, "broadcastMessages")
	unit := alg + ".tables"
	add := func(name string, holds bool, pos, detail string) {
		goal := "false"
		if holds {
			goal = "true"
		}
		o := &Obligation{Name: unit + "#" + name, Kind: "table", Func: unit, Pos: pos, Goal: goal, Output: detail}
		if holds {
			o.Status, o.Solver = "unsat", "table-eval"
		} else {
			o.Status, o.Solver = "sat", "table-eval"
		}
		e.addObligation(o)
	}
	add("tables-present", ok1 && ok2, "mpc/binance/"+alg+"/mpc.go", "msgURL2Round and broadcastMessages must be map literals")
	var lib []libMsg
	for _, ph := range []string{"keygen", "signing"} {
		ms, err := libraryMessages(libDir, alg, ph)
		if err != nil {
			return err
		}
		lib = append(lib, ms...)
	}
	add("library-messages-found", len(lib) >= 6, libDir, fmt.Sprintf("%d message constructors found in the dependency", len(lib)))
	known := map[string]bool{}
	eff := func(url string) (int, bool) {
		v, ok := rounds[url]
		if !ok {
			return 0, false
		}
		n, err := strconv.Atoi(v)
		if err != nil {
			return 0, false
		}
		if n > 4 {
			n -= 4
		}
		return n, true
	}
	for _, m := range lib {
		known[m.url] = true
		short := m.url[strings.LastIndex(m.url, ".tsslib.")+8:]
		_, isB := bcast[m.url]
		add("routing["+short+"]", isB == m.broadcast, m.pos, fmt.Sprintf("library routes %s with IsBroadcast=%v, the adapter classifies it as broadcast=%v", m.url, m.broadcast, isB))
		_, hasRound := eff(m.url)
		add("classified["+short+"]", hasRound, m.pos, "every message type of the library needs a round in msgURL2Round")
	}
	// distinct rounds of the broadcast-class types of one phase
	for _, ph := range []string{"keygen", "signing"} {
		seen := map[int]string{}
		okAll := true
		detail := ""
		var urls []string
		for _, m := range lib {
			if m.phase == ph && m.broadcast {
				urls = append(urls, m.url)
			}
		}
		sort.Strings(urls)
		for _, u := range urls {
			r, ok := eff(u)
			if !ok {
				continue
			}
			if prev, dup := seen[r]; dup {
				okAll = false
				detail = fmt.Sprintf("%s and %s share round %d", prev, u, r)
			}
			seen[r] = u
		}
		add("distinct-broadcast-rounds["+ph+"]", okAll, "mpc/binance/"+alg+"/mpc.go", detail)
	}
	// nothing in the adapter's tables that the library does not know
	var extra []string
	for u := range rounds {
		if !known[u] {
			extra = append(extra, u)
		}
	}
	for u := range bcast {
		if !known[u] {
			extra = append(extra, u)
		}
	}
	sort.Strings(extra)
	add("no-unknown-types", len(extra) == 0, "mpc/binance/"+alg+"/mpc.go", strings.Join(extra, ", "))
	e.assumptions["the routing of a tss-lib message type is the IsBroadcast value written in its New*Message constructor (extracted from the dependency's source "+libDir+" on every run); the proto type URL is type.googleapis.com/binance.tsslib.<alg>.<package>.<Type>"] = true
	return nil
}
