package main

// Calls: builtins, inlining, call-by-contract, library models, callbacks.

import (
	"regexp"
	"fmt"
	"go/token"
	"go/types"
	"strings"

	"golang.org/x/tools/go/ssa"
)

func (e *Engine) execCall(st *State, fr *Frame, c *ssa.CallCommon, into ssa.Value, pos token.Pos, ins ssa.Instruction) {
	var args []Val
	for _, a := range c.Args {
		args = append(args, e.val(st, fr, a))
	}
	fn := e.val(st, fr, c.Value)
	e.callValue(st, fr, c, fn, args, into, pos, ins, false)
}

// callValue performs a call whose callee value and arguments are already evaluated.
func (e *Engine) callValue(st *State, fr *Frame, c *ssa.CallCommon, fn Val, args []Val, into ssa.Value, pos token.Pos, ins ssa.Instruction, isDefer bool) {
	setRes := func(v Val) {
		if into != nil {
			fr.regs[into] = v
		}
	}
	var resT types.Type
	if into != nil {
		resT = into.Type()
	} else {
		resT = c.Signature().Results()
	}
	if c.IsInvoke() {
		e.callInvoke(st, fr, c, fn, args, into, resT, pos, ins)
		return
	}
	if b, ok := c.Value.(*ssa.Builtin); ok {
		setRes(e.callBuiltin(st, fr, b, args, resT, pos, ins))
		return
	}
	var callee *ssa.Function
	var bindings []Val
	if fn.C != nil {
		callee = fn.C.Fn
		bindings = fn.C.Bindings
	} else if f, ok := c.Value.(*ssa.Function); ok {
		callee = f
	}
	if callee == nil {
		// dynamic call through a func value of unknown target: a callback
		name := e.siteName(st, fr, "nil-call", pos, ins)
		st.check("nil-call", name, not(eq(fn.S, "0")), pos)
		e.iterDirectCall(st, fr, fn, args, pos, ins)
		e.callbackEvent(st, fr, c, fn, args, pos, ins)
		res := e.unknownCall(st, "callback:"+e.srcSnippet(fr.fn, pos), args, resT, false)
		e.callbackResult(st, fr, c, res, args)
		setRes(res)
		return
	}
	e.callFunction(st, fr, callee, bindings, args, into, resT, pos, ins, isDefer)
}

func (e *Engine) callFunction(st *State, fr *Frame, callee *ssa.Function, bindings []Val, args []Val, into ssa.Value, resT types.Type, pos token.Pos, ins ssa.Instruction, isDefer bool) {
	setRes := func(v Val) {
		if into != nil {
			fr.regs[into] = v
		}
	}
	full := callee.String()
	e.staticCallEvent(st, fr, callee, args, pos, ins)
	if recv := callee.Signature.Recv(); recv != nil && len(args) > 0 && !e.isRepoFunc(callee) {
		// a method of a library type with a pointer receiver dereferences it (the standard library and the
		// dependencies have no methods that are meant to be called on nil, except those listed)
		if _, isPtr := recv.Type().Underlying().(*types.Pointer); isPtr && !nilReceiverOK[full] && args[0].A == nil && !libReceiverKnown(callee, ins) {
			name := e.siteName(st, fr, "nil-deref", pos, ins)
			st.check("nil-deref", name, not(eq(args[0].S, "0")), pos)
		}
	}
	if m, ok := libModels[full]; ok {
		r := m(e, st, fr, args, resT, pos, ins)
		setRes(r)
		e.afterCallEvent(st, fr, callee, args, r, pos, ins) // "after-call" clauses may name the result of a modelled library call
		return
	}
	inRepo := callee.Blocks != nil && (e.isRepoFunc(callee))
	if inRepo {
		ct := e.contractFor(callee)
		if ct != nil && !ct.Inline && ct.Iter != nil && e.modelIterate(st, fr, callee, ct, args, pos, ins) {
			return
		}
		if ct != nil && ct.Iter != nil {
			e.iterPassedOn(st, fr, callee, ct, args, pos, ins)
		}
		if ct != nil && !ct.Inline && !(len(st.frames) == 1 && false) {
			res := e.callByContract(st, fr, callee, ct, args, bindings, resT, pos, ins)
			setRes(res)
			e.afterCallEvent(st, fr, callee, args, res, pos, ins)
			if pd := st.pendingDone; pd != nil {
				st.pendingDone = nil
				for _, c := range sortedKeys(pd) {
					sym := pd[c]
					if other := e.fork(st); other != nil {
						other.assume(sym)
						if other.ctxDone == nil {
							other.ctxDone = map[string]bool{}
						}
						other.ctxDone[c] = true
						other.trace = append(other.trace, "callee-saw-done")
						e.run(other)
					}
					st.assume(not(sym))
				}
			}
			return
		}
		// inline
		rec := false
		for _, f := range st.frames {
			if f.fn == callee {
				rec = true
			}
		}
		if !rec && len(st.frames) < maxInlineDepth {
			e.inlined[funcDisplayName(callee)] = true
			nf := e.newFrame(callee)
			nf.freeVars = bindings
			nf.retInto = into
			for i, p := range callee.Params {
				if i < len(args) {
					a := args[i]
					a.T = p.Type()
					nf.regs[p] = a
				}
			}
			st.frames = append(st.frames, nf)
			e.entryEvents(st, nf)
			if e.isLoopHeader(nf.block) {
				e.atLoopHeader(st, nf, nf.block)
			}
			return
		}
		e.unmodelled["recursion-or-depth:"+funcDisplayName(callee)] = true
		setRes(e.unknownCall(st, full, args, resT, true))
		return
	}
	// values passed inside an interface (sort.Slice(s, ...), fmt.Sscan(&x), json.Unmarshal(b, &v)) are reachable too
	if ci, ok := ins.(ssa.CallInstruction); ok {
		for _, a := range ci.Common().Args {
			if mi, ok := a.(*ssa.MakeInterface); ok {
				if _, isSlice := mi.X.Type().Underlying().(*types.Slice); isSlice {
					e.havocReachable(st, e.val(st, fr, mi.X))
				}
			}
		}
	}
	ur := e.unknownCall(st, full, args, resT, false)
	setRes(ur)
	e.afterCallEvent(st, fr, callee, args, ur, pos, ins) // ... and of an unmodelled one (an arbitrary value of the result type)
}

func (e *Engine) newFrame(fn *ssa.Function) *Frame {
	if ct := e.contractFor(fn); ct != nil {
		e.execContracts[ct] = true
	}
	return &Frame{fn: fn, regs: map[ssa.Value]Val{}, locals: map[*ssa.Alloc]Val{}, block: fn.Blocks[0], loopSeen: map[*ssa.BasicBlock]*loopCtx{}}
}

func (e *Engine) isRepoFunc(f *ssa.Function) bool {
	if f.Pkg != nil {
		return e.repoPkgs[f.Pkg.Pkg.Path()]
	}
	if f.Parent() != nil {
		return e.isRepoFunc(f.Parent())
	}
	// synthetic wrappers ($bound, $thunk): repo if the wrapped method is
	if f.Synthetic != "" && f.Blocks != nil {
		if o := f.Object(); o != nil && o.Pkg() != nil {
			return e.repoPkgs[o.Pkg().Path()]
		}
		// bound method closures have no object: look at the receiver type's package
		if len(f.FreeVars) == 1 {
			if n := namedOf(f.FreeVars[0].Type()); n != nil && n.Obj().Pkg() != nil {
				return e.repoPkgs[n.Obj().Pkg().Path()]
			}
		}
		if f.Signature.Recv() != nil {
			if n := namedOf(f.Signature.Recv().Type()); n != nil && n.Obj().Pkg() != nil {
				return e.repoPkgs[n.Obj().Pkg().Path()]
			}
		}
	}
	return false
}

func namedOf(t types.Type) *types.Named {
	if p, ok := t.(*types.Pointer); ok {
		t = p.Elem()
	}
	n, _ := t.(*types.Named)
	return n
}

// unknownCall models a call whose body is not available: fresh result, contents of slice arguments and cells of
// pointer arguments havocked, allocation frontier bumped. all=true havocs every heap.
func (e *Engine) unknownCall(st *State, name string, args []Val, resT types.Type, all bool) Val {
	if !strings.HasPrefix(name, "callback:") {
		e.unmodelled[name] = true
	}
	st.bumpFrontier()
	if all {
		for _, h := range sortedKeys(st.heaps) {
			if h != "$alloc" {
				st.havocHeap(h)
			}
		}
	} else {
		for _, a := range args {
			e.havocReachable(st, a)
		}
	}
	return e.freshResult(st, "ret", resT)
}

func (e *Engine) freshResult(st *State, prefix string, resT types.Type) Val {
	if resT == nil {
		return Val{}
	}
	if t, ok := resT.(*types.Tuple); ok {
		if t.Len() == 0 {
			return Val{}
		}
		if t.Len() == 1 {
			resT = t.At(0).Type()
		}
	}
	v := st.freshVal(prefix, resT)
	e.assumeAllocatedDeep(st, v)
	return v
}

func (e *Engine) assumeAllocatedDeep(st *State, v Val) {
	if len(v.Tup) > 0 {
		for _, x := range v.Tup {
			e.assumeAllocatedDeep(st, x)
		}
		return
	}
	if v.T != nil {
		st.assumeAllocated(v.S, v.T)
	}
}

func (st *State) bumpFrontier() {
	cur := st.heap("$alloc", "Int")
	n := st.freshConst("frontier", "Int")
	st.assume(fmt.Sprintf("(>= %s %s)", n, cur))
	st.setHeapQuiet("$alloc", "Int", n)
	if st.writes != nil {
		st.writes["$alloc"] = true
	}
}

// havocReachable havocs what an unknown callee may write through an argument: elements of a slice, the cell
// behind a pointer to a non-struct, every field of a pointed-to struct of a type that is not a repository type.
func (e *Engine) havocReachable(st *State, a Val) {
	if a.T == nil {
		return
	}
	switch t := a.T.Underlying().(type) {
	case *types.Slice:
		hn, hs := elemHeapName(t.Elem())
		h := st.heap(hn, hs)
		arr := st.freshConst("havoc_row", fmt.Sprintf("(Array Int %s)", sortOf(t.Elem())))
		st.setHeap(hn, hs, store(h, slRef(a.S), arr))
	case *types.Pointer:
		if a.A != nil {
			if a.A.Kind == ALocal {
				return
			}
			v := st.freshVal("havoc_cell", a.A.T)
			st.store(a.A, v)
			return
		}
		if s, ok := t.Elem().Underlying().(*types.Struct); ok {
			if n := namedOf(t.Elem()); n != nil && n.Obj().Pkg() != nil && e.repoPkgs[n.Obj().Pkg().Path()] {
				return // repository structs are not written by library code / non-reentrant callbacks (assumption A-callback)
			}
			for i := 0; i < s.NumFields(); i++ {
				hn, hs := fieldHeapName(t.Elem(), s, i)
				h := st.heap(hn, hs)
				v := st.freshConst("havoc_field", sortOf(s.Field(i).Type()))
				st.setHeap(hn, hs, store(h, a.S, v))
			}
			return
		}
		if at, ok := t.Elem().Underlying().(*types.Array); ok {
			hn, hs := elemHeapName(at.Elem())
			h := st.heap(hn, hs)
			arr := st.freshConst("havoc_row", fmt.Sprintf("(Array Int %s)", sortOf(at.Elem())))
			st.setHeap(hn, hs, store(h, a.S, arr))
			return
		}
		hn, hs := cellHeapName(t.Elem())
		h := st.heap(hn, hs)
		v := st.freshConst("havoc_cell", sortOf(t.Elem()))
		st.setHeap(hn, hs, store(h, a.S, v))
	}
}

// ---------------------------------------------------------------------------------------
// interface method calls

var pureMethods = map[string]bool{"Debugf": true, "Infof": true, "Warnf": true, "Errorf": true, "DebugEnabled": true}

func (e *Engine) callInvoke(st *State, fr *Frame, c *ssa.CallCommon, recv Val, args []Val, into ssa.Value, resT types.Type, pos token.Pos, ins ssa.Instruction) {
	setRes := func(v Val) {
		if into != nil {
			fr.regs[into] = v
		}
	}
	name := e.siteName(st, fr, "nil-call", pos, ins)
	st.check("nil-call", name, not(eq(ifTyp(recv.S), "0")), pos)
	mname := c.Method.Name()
	itName := ""
	if n := namedOf(c.Value.Type()); n != nil {
		itName = n.Obj().Name()
	}
	if pureMethods[mname] && itName == "Logger" {
		// logging: returns, does not panic on a non-nil logger, touches no verified state (argument evaluation already happened)
		setRes(e.freshResult(st, "log", resT))
		return
	}
	key := itName + "." + mname
	if n := namedOf(c.Value.Type()); n != nil && n.Obj().Pkg() != nil {
		key = n.Obj().Pkg().Path() + "." + key
	}
	if m, ok := ifaceModels[key]; ok {
		e.callbackEvent(st, fr, c, recv, args, pos, ins)
		setRes(m(e, st, fr, recv, args, resT, pos, ins))
		return
	}
	// interface contracts declared in contract files: "func Message.Ack" style
	if ct := e.ifaceContract(c.Value.Type(), mname); ct != nil {
		setRes(e.callIfaceContract(st, fr, c, ct, recv, args, resT, pos, ins))
		return
	}
	e.callbackEvent(st, fr, c, recv, args, pos, ins)
	e.unmodelledIface[key] = true
	ires := e.unknownCall(st, "callback:"+key, args, resT, false)
	e.callbackResult(st, fr, c, ires, args)
	setRes(ires)
}

// ---------------------------------------------------------------------------------------
// builtins

func (e *Engine) callBuiltin(st *State, fr *Frame, b *ssa.Builtin, args []Val, resT types.Type, pos token.Pos, ins ssa.Instruction) Val {
	switch b.Name() {
	case "len":
		x := args[0]
		switch t := x.T.Underlying().(type) {
		case *types.Slice:
			return intVal(slLen(x.S))
		case *types.Basic:
			return intVal(strLen(x.S))
		case *types.Map:
			e.lockCheckMapVal(st, fr, ins, false, pos)
			return intVal(e.mapLen(st, t, x.S))
		case *types.Array:
			return intVal(fmt.Sprintf("%d", t.Len()))
		case *types.Pointer:
			if at, ok := t.Elem().Underlying().(*types.Array); ok {
				return intVal(fmt.Sprintf("%d", at.Len()))
			}
		case *types.Chan:
			v := st.freshVal("chanlen", types.Typ[types.Int])
			st.assume(fmt.Sprintf("(>= %s 0)", v.S))
			return v
		}
	case "cap":
		x := args[0]
		switch t := x.T.Underlying().(type) {
		case *types.Slice:
			return intVal(slCap(x.S))
		case *types.Array:
			return intVal(fmt.Sprintf("%d", t.Len()))
		}
		v := st.freshVal("cap", types.Typ[types.Int])
		st.assume(fmt.Sprintf("(>= %s 0)", v.S))
		return v
	case "append":
		return e.builtinAppend(st, args[0], args[1], resT)
	case "copy":
		return e.builtinCopy(st, args[0], args[1])
	case "delete":
		mt := args[0].T.Underlying().(*types.Map)
		e.lockCheckMapVal(st, fr, ins, true, pos)
		e.mapDelete(st, mt, args[0].S, args[1].S)
		return Val{}
	case "close":
		e.eventClose(st, fr, args[0], pos, ins)
		return Val{}
	case "panic":
		name := e.siteName(st, fr, "panic", pos, ins)
		st.oblige("panic", name, "false", pos)
		st.dead = true
		return Val{}
	case "print", "println":
		return Val{}
	case "ssa:wrapnilchk":
		name := e.siteName(st, fr, "nil-deref", pos, ins)
		st.check("nil-deref", name, not(eq(args[0].S, "0")), pos)
		return args[0]
	case "ssa:deferstack":
		return Val{S: "0", T: resT}
	case "min", "max":
		a, b2 := args[0], args[1]
		op := "<"
		if b.Name() == "max" {
			op = ">"
		}
		return Val{S: ite("("+op+" "+a.S+" "+b2.S+")", a.S, b2.S), T: resT}
	}
	e.unsupported(st, fr, "builtin "+b.Name(), pos)
	return e.freshResult(st, "builtin", resT)
}

// append(s, t...) : in place when capacity suffices, otherwise a fresh backing array; one state, no fork.
func (e *Engine) builtinAppend(st *State, s, t Val, resT types.Type) Val {
	sl := resT.Underlying().(*types.Slice)
	et := sl.Elem()
	es := sortOf(et)
	hn, hs := elemHeapName(et)
	h := st.heap(hn, hs)
	var tlen, tget string
	var tArr func(i string) string
	if sortOf(t.T) == "Str" { // append([]byte, string...)
		tlen = strLen(t.S)
		tArr = func(i string) string { return sel(strArr(t.S), i) }
	} else {
		tlen = slLen(t.S)
		tArr = func(i string) string { return sel(sel(h, slRef(t.S)), ix(slOff(t.S), i)) }
	}
	_ = tget
	if tlen == "0" {
		return Val{S: s.S, T: resT}
	}
	slen, scap, sref, soff := slLen(s.S), slCap(s.S), slRef(s.S), slOff(s.S)
	nlen := st.freshConst("applen", "Int")
	st.assume(eq(nlen, add(slen, tlen)))
	grow := st.freshConst("grow", "Bool")
	st.assume(eq(grow, fmt.Sprintf("(> %s %s)", nlen, scap)))
	newref := st.freshRef("app")
	ncap := st.freshConst("appcap", "Int")
	st.assume(fmt.Sprintf("(and (>= %s %s) (<= %s 1099511627776))", ncap, nlen, ncap))
	// new contents of the row that receives the elements
	row := st.freshConst("approw", fmt.Sprintf("(Array Int %s)", es))
	oldrow := sel(h, sref)
	roff := st.freshConst("appoff", "Int")
	st.assume(eq(roff, ite(grow, "0", soff)))
	// relative view: result[k] for 0 <= k < len+n is the old element or the appended one
	st.assume(fmt.Sprintf("(forall ((k Int)) (! (=> (and (<= 0 k) (< k %s)) (= (select %s %s) (ite (< k %s) (select %s %s) %s))) :pattern ((select %s %s))))",
		nlen, row, ix(roff, "k"), slen, oldrow, ix(soff, "k"), tArr("(- k "+slen+")"), row, ix(roff, "k")))
	// in place: everything outside the appended window keeps its value
	st.assume(fmt.Sprintf("(=> (not %s) (forall ((i Int)) (! (=> (not (and (<= (+ %s %s) i) (< i (+ %s %s)))) (= (select %s i) (select %s i))) :pattern ((select %s i)))))",
		grow, soff, slen, soff, nlen, row, oldrow, row))
	rref := ite(grow, newref, sref)
	if tlen == "1" && (es == "Int" || es == "Str") {
		// the element set grows by exactly the appended element (valid fact about append; saves an induction)
		fn := "elems!" + es
		reg.declareFun(fn, []string{fmt.Sprintf("(Array Int %s)", es), "Int", "Int"}, fmt.Sprintf("(Array %s Bool)", es))
		e.assumptions["append(s, x): elems(result) = elems(s) + {x} (trusted lemma about the ghost element set)"] = true
		st.assume(fmt.Sprintf("(= (%s %s %s %s) (store (%s %s %s %s) %s true))", fn, row, roff, nlen, fn, oldrow, soff, slen, tArr("0")))
	}
	st.setHeap(hn, hs, store(h, rref, row))
	res := mkSlice(rref, roff, nlen, ite(grow, ncap, scap))
	r := st.freshConst("appres", "Slice")
	st.assume(eq(r, res))
	return Val{S: r, T: resT}
}

func (e *Engine) builtinCopy(st *State, dst, src Val) Val {
	dt := dst.T.Underlying().(*types.Slice)
	et := dt.Elem()
	hn, hs := elemHeapName(et)
	h := st.heap(hn, hs)
	var slen string
	var sAt func(i string) string
	if sortOf(src.T) == "Str" {
		slen = strLen(src.S)
		sAt = func(i string) string { return sel(strArr(src.S), i) }
	} else {
		slen = slLen(src.S)
		sAt = func(i string) string { return sel(sel(h, slRef(src.S)), ix(slOff(src.S), i)) }
	}
	n := st.freshConst("copyn", "Int")
	st.assume(eq(n, ite(fmt.Sprintf("(< %s %s)", slLen(dst.S), slen), slLen(dst.S), slen)))
	row := st.freshConst("copyrow", fmt.Sprintf("(Array Int %s)", sortOf(et)))
	oldrow := sel(h, slRef(dst.S))
	off := slOff(dst.S)
	st.assume(fmt.Sprintf("(forall ((k Int)) (! (=> (and (<= 0 k) (< k %s)) (= (select %s %s) %s)) :pattern ((select %s %s))))",
		n, row, ix(off, "k"), sAt("k"), row, ix(off, "k")))
	st.assume(fmt.Sprintf("(forall ((i Int)) (! (=> (not (and (<= %s i) (< i (+ %s %s)))) (= (select %s i) (select %s i))) :pattern ((select %s i))))",
		off, off, n, row, oldrow, row))
	st.setHeap(hn, hs, store(h, slRef(dst.S), row))
	return intVal(n)
}

// ---------------------------------------------------------------------------------------
// call by contract

func (e *Engine) bindParams(env *Env, fn *ssa.Function, args []Val) {
	for i, p := range fn.Params {
		if i < len(args) {
			a := args[i]
			a.T = p.Type()
			env.vars[p.Name()] = a
		}
	}
}

func (e *Engine) callByContract(st *State, fr *Frame, callee *ssa.Function, ct *Contract, args []Val, bindings []Val, resT types.Type, pos token.Pos, ins ssa.Instruction) Val {
	e.calledByContract[funcDisplayName(callee)] = true
	env := &Env{eng: e, st: st, pkg: e.pkgOf(callee), vars: map[string]Val{}, where: "call " + funcDisplayName(callee)}
	e.bindParams(env, callee, args)
	for i, fv := range callee.FreeVars {
		// captured variables of a closure called by contract: current contents of the captured cells
		if i < len(bindings) {
			b := bindings[i]
			var v Val
			if b.A != nil {
				v = st.load(b.A)
			} else if _, isPtr := b.T.Underlying().(*types.Pointer); isPtr {
				v = e.loadPtr(st, b)
			} else {
				v = b
			}
			v.T = deref(fv.Type())
			env.vars[fv.Name()] = v
		}
	}
	for _, g := range ct.GhostParam {
		// ghost arguments are passed by name from the caller's ghost variables
		if v, ok := st.unit.ghostVars[g.Name]; ok {
			env.vars[g.Name] = v
		} else {
			env.errf("ghost parameter %s of %s is not available in the caller", g.Name, funcDisplayName(callee))
		}
	}
	for _, rq := range env.expand(ct.Requires) {
		name := e.siteName(st, fr, "requires@"+funcDisplayName(callee)+"["+rq.name+"]", pos, ins)
		st.check("requires", name, rq.term, pos)
	}
	// lock preconditions
	e.checkHolds(st, fr, callee, ct, env, pos, ins)
	// snapshot, havoc modifies
	snap := make(map[string]string, len(st.heaps))
	for k, v := range st.heaps {
		snap[k] = v
	}
	st.bumpFrontier()
	e.havocModifies(st, env, ct)
	res := e.freshResult(st, "res_"+callee.Name(), callee.Signature.Results())
	post := &Env{eng: e, st: st, pkg: env.pkg, vars: env.vars, oldSnap: snap, hasOld: true, where: "ensures of " + funcDisplayName(callee), doneSym: map[string]string{}, havocNew: !ct.HasMod}
	e.bindResults(post, callee, res)
	for _, en := range post.expand(ct.Ensures) {
		st.assume(en.term)
	}
	if len(post.doneSym) > 0 {
		st.pendingDone = post.doneSym
	}
	for _, en := range post.expand(ct.AssumedEns) {
		e.assumptions["assumed postcondition of "+funcDisplayName(callee)+" (not checked on its body): ["+en.name+"]"] = true
		st.assume(en.term)
	}
	return res
}

func (e *Engine) bindResults(env *Env, fn *ssa.Function, res Val) {
	rs := fn.Signature.Results()
	switch rs.Len() {
	case 0:
	case 1:
		env.vars["result"] = res
		if n := rs.At(0).Name(); n != "" && n != "_" {
			env.vars[n] = res
		}
	default:
		env.vars["result"] = res
		for i := 0; i < rs.Len() && i < len(res.Tup); i++ {
			if n := rs.At(i).Name(); n != "" && n != "_" {
				env.vars[n] = res.Tup[i]
			}
		}
	}
}

// havocModifies havocs the locations named by the modifies clause (everything if the clause is absent).
func (e *Engine) havocModifies(st *State, env *Env, ct *Contract) {
	if ct.Pure {
		return
	}
	if !ct.HasMod {
		for _, h := range sortedKeys(st.heaps) {
			if h != "$alloc" {
				st.havocHeap(h)
			}
		}
		return
	}
	for _, m := range ct.Modifies {
		e.havocLocation(st, env, m)
	}
}

// havocLocation: forms  x.f  |  x.f[*]  |  s[*]  |  *p  |  heap:<name>  | ghost x.g
func (e *Engine) havocLocation(st *State, env *Env, m string) {
	m = strings.TrimSpace(m)
	if strings.HasPrefix(m, "heap:") {
		n := resolveHeapName(m[5:])
		if strings.HasPrefix(n, "L!alg!") {
			declareAlgebra()
			algHeap(n[6:])
		}
		if n == "L!hash!data" || n == "L!hash!key" {
			heapSortOf[n] = "(Array Int Str)"
		}
		if srt, ok := heapSortOf[n]; ok {
			st.heap(n, srt)
		}
		st.havocHeap(n)
		return
	}
	if strings.HasPrefix(m, "guarded(") && strings.HasSuffix(m, ")") {
		// everything protected by the monitor of the named lock
		ex, err := parseSpecExpr(m[8 : len(m)-1])
		if err != nil || ex.Op != "sel" {
			env.errf("guarded(x.lock) expected: %q", m)
			return
		}
		x := env.eval(ex.Args[0])
		if mon := e.monitorFor(deref(x.T), ex.Name); mon != nil {
			e.havocGuarded(st, mon, x.S, deref(x.T))
		} else {
			env.errf("no monitor declared for %s", m)
		}
		return
	}
	elems := false
	if strings.HasSuffix(m, "[*]") {
		elems = true
		m = strings.TrimSuffix(m, "[*]")
	}
	ex, err := parseSpecExpr(m)
	if err != nil {
		env.errf("bad modifies item %q: %v", m, err)
		return
	}
	if elems {
		v := env.eval(ex)
		switch t := v.T.Underlying().(type) {
		case *types.Slice:
			hn, hs := elemHeapName(t.Elem())
			h := st.heap(hn, hs)
			arr := st.freshConst("mod_row", fmt.Sprintf("(Array Int %s)", sortOf(t.Elem())))
			st.setHeap(hn, hs, store(h, slRef(v.S), arr))
		case *types.Map:
			dn, vn, ds, vs, ks := mapHeapNames(t)
			d := st.freshConst("mod_dom", fmt.Sprintf("(Array %s Bool)", ks))
			st.setHeap(dn, ds, store(st.heap(dn, ds), v.S, d))
			vv := st.freshConst("mod_vals", fmt.Sprintf("(Array %s %s)", ks, sortOf(t.Elem())))
			st.setHeap(vn, vs, store(st.heap(vn, vs), v.S, vv))
		default:
			env.errf("modifies %s[*]: not a slice or map", m)
		}
		return
	}
	if ex.Op == "sel" {
		x := env.eval(ex.Args[0])
		if p, ok := x.T.Underlying().(*types.Pointer); ok {
			if s, ok := p.Elem().Underlying().(*types.Struct); ok {
				if i := findField(s, ex.Name); i >= 0 {
					hn, hs := fieldHeapName(p.Elem(), s, i)
					v := st.freshConst("mod_"+ex.Name, sortOf(s.Field(i).Type()))
					st.assume(typeInv(v, s.Field(i).Type()))
					st.setHeap(hn, hs, store(st.heap(hn, hs), x.S, v))
					return
				}
				if ts := e.typeSpecFor(p.Elem()); ts != nil {
					for _, g := range ts.Ghost {
						if g.Name == ex.Name {
							gt := e.ghostType(ts, g)
							hn := "GF!" + ts.Name + "!" + g.Name
							hs := fmt.Sprintf("(Array Int %s)", gt.sort)
							v := st.freshConst("mod_"+ex.Name, gt.sort)
							st.setHeap(hn, hs, store(st.heap(hn, hs), x.S, v))
							return
						}
					}
				}
			}
		}
	}
	if ex.Op == "unary" && ex.Name == "*" {
		p := env.eval(ex.Args[0])
		if p.A != nil && p.A.Kind != ACell {
			// the argument is the address of a location the caller knows by name (a struct-valued field of another object, an
			// element, a local): the callee's writes land in THAT storage. Havocking the field heaps at the pointer value
			// instead left the caller's view unchanged, and assuming the callee's postcondition on top of the stale value
			// made the path inconsistent (everything after the call discharged vacuously); found while writing the C10
			// contracts of ps.(*SigPoK).fromBytes (probe: ensures result == nil ==> false was "proved").
			v := st.freshVal("mod_obj", p.A.T)
			st.assumeTypeInv(v.S, p.A.T)
			st.store(p.A, v)
			return
		}
		if pt, ok := p.T.Underlying().(*types.Pointer); ok {
			if s, ok := pt.Elem().Underlying().(*types.Struct); ok {
				// every field of the pointed-to struct (havocReachable spares repository structs: that rule is for
				// library callbacks, not for a callee that declares the write)
				for i := 0; i < s.NumFields(); i++ {
					hn, hs := fieldHeapName(pt.Elem(), s, i)
					v := st.freshConst("mod_"+s.Field(i).Name(), sortOf(s.Field(i).Type()))
					st.assume(typeInv(v, s.Field(i).Type()))
					st.setHeap(hn, hs, store(st.heap(hn, hs), p.S, v))
				}
				return
			}
		}
		e.havocReachable(st, p)
		return
	}
	env.errf("unsupported modifies item %q", m)
}

// capturedEnv exposes the current contents of the captured cells of a closure by the names of the captured variables.
func (e *Engine) capturedEnv(st *State, fn *ssa.Function, bindings []Val, where string) *Env {
	env := &Env{eng: e, st: st, pkg: e.pkgOf(fn), vars: map[string]Val{}, where: where}
	for i, fv := range fn.FreeVars {
		if i >= len(bindings) {
			break
		}
		b := bindings[i]
		var v Val
		if b.A != nil {
			v = st.load(b.A)
		} else if _, isPtr := b.T.Underlying().(*types.Pointer); isPtr {
			v = e.loadPtr(st, b)
		} else {
			v = b
		}
		v.T = deref(fv.Type())
		env.vars[fv.Name()] = v
	}
	return env
}

// checkCaptured: "requires-captured" clauses of a closure's contract are proof obligations where the closure is created
// (they may only mention captured variables, which the repository never reassigns after capture -- checked by
// the closure unit itself having no stores to them is not needed: a reassignment in the parent would be a store to a
// captured cell after this point and is reported by capturedStable).
func (e *Engine) checkCaptured(st *State, fr *Frame, fn *ssa.Function, bindings []Val, x *ssa.MakeClosure) {
	// "at makeclosure <name>:" clauses of the creating function (its locals are visible)
	if pct := e.contractFor(fr.fn); pct != nil {
		want := "makeclosure " + strings.TrimPrefix(funcDisplayName(fn), funcDisplayName(fr.fn))
		want2 := "makeclosure " + funcDisplayName(fn)
		for _, ev := range pct.Events {
			if ev.Kind != "at" || (ev.Target != want && ev.Target != want2) {
				continue
			}
			env := e.eventEnv(st, fr, ev, nil)
			e.runEvent(st, fr, ev, env, ev.Target, x.Pos(), x)
		}
	}
	ct := e.contractFor(fn)
	if ct == nil || len(ct.Captured) == 0 {
		return
	}
	env := e.capturedEnv(st, fn, bindings, "requires-captured of "+funcDisplayName(fn))
	for i, c := range ct.Captured {
		nm := c.Name
		if nm == "" {
			nm = fmt.Sprintf("%d", i)
		}
		name := fmt.Sprintf("%s#captured@%s[%s]", funcDisplayName(fr.fn), funcDisplayName(fn), nm)
		if fr.fn != st.unit.Fn {
			name = st.unit.Name + ">" + name
		}
		st.check("captured", name, env.evalBool(c.Expr), x.Pos())
	}
}

// staticCallEvent: "on-call <name>(params)" clauses for statically resolved callees; <name> is the display name of the
// callee without its package for repository functions ("(*membership).sessionNodesByPartyID"), or "pkg.Func" /
// "(*T).Method" for library functions.
func (e *Engine) staticCallEvent(st *State, fr *Frame, callee *ssa.Function, args []Val, pos token.Pos, ins ssa.Instruction) {
	ct := e.contractFor(fr.fn)
	if ct == nil || len(ct.Events) == 0 {
		return
	}
	name := funcDisplayName(callee)
	short := name
	if callee.Pkg != nil {
		short = strings.TrimPrefix(name, callee.Pkg.Pkg.Name()+".")
	}
	for _, ev := range ct.Events {
		if ev.Kind != "on-call" || (ev.Target != name && ev.Target != short) {
			continue
		}
		env := e.eventEnv(st, fr, ev, args)
		e.runEvent(st, fr, ev, env, "call("+ev.Target+")", pos, ins)
	}
}

// callbackResult: "assume-result" clauses of the matching on-call event: configuration assumptions about what a
// callback returns (e.g. factories return non-nil objects). They are assumptions, listed in the evidence.
func (e *Engine) callbackResult(st *State, fr *Frame, c *ssa.CallCommon, res Val, args []Val) {
	ct := e.contractFor(fr.fn)
	if ct == nil {
		return
	}
	target := e.exprText(fr.fn, c.Value)
	if c.IsInvoke() {
		target += "." + c.Method.Name()
	}
	for _, ev := range ct.Events {
		if ev.Kind != "on-call" || ev.Target != target || len(ev.Results) == 0 {
			continue
		}
		env := e.eventEnv(st, fr, ev, args)
		env.vars["result"] = res
		ev.Fired++
		for _, r := range ev.Results {
			e.assumptions["callback result assumed in "+funcDisplayName(fr.fn)+": "+target+" returns "+r.Text] = true
			st.assume(env.evalBool(r.Expr))
		}
	}
}

var structSortPrefix = regexp.MustCompile(`S[0-9]+_`)

// resolveHeapName: contracts name field heaps by type name (F!PK!X); the engine numbers struct sorts (F!S8_PK!X).
func resolveHeapName(n string) string {
	if _, ok := heapSortOf[n]; ok {
		return n
	}
	var hit string
	for k := range heapSortOf {
		if structSortPrefix.ReplaceAllString(k, "") == n {
			if hit == "" || k < hit {
				hit = k
			}
		}
	}
	if hit != "" {
		return hit
	}
	return n
}

// afterCallEvent: "after-call <name>(params):" clauses of the calling function, for callees called by contract; `result`
// is the value the call returned.
func (e *Engine) afterCallEvent(st *State, fr *Frame, callee *ssa.Function, args []Val, res Val, pos token.Pos, ins ssa.Instruction) {
	ct := e.contractFor(fr.fn)
	if ct == nil || len(ct.Events) == 0 {
		return
	}
	name := funcDisplayName(callee)
	short := name
	if callee.Pkg != nil {
		short = strings.TrimPrefix(name, callee.Pkg.Pkg.Name()+".")
	}
	for _, ev := range ct.Events {
		if ev.Kind != "after-call" || (ev.Target != name && ev.Target != short) {
			continue
		}
		env := e.eventEnv(st, fr, ev, args)
		e.bindResults(env, callee, res)
		e.runEvent(st, fr, ev, env, "after("+ev.Target+")", pos, ins)
	}
}

// nilReceiverOK: library methods that may be called on a nil pointer receiver.
var nilReceiverOK = map[string]bool{
	"(*sync.WaitGroup).Add": false,
}

// libReceiverKnown: receivers that are package-level variables of a library (base64.StdEncoding, elliptic curves, ...) are
// initialised by that library; sync primitives are modelled separately.
func libReceiverKnown(callee *ssa.Function, ins ssa.Instruction) bool {
	if callee.Pkg != nil {
		switch callee.Pkg.Pkg.Path() {
		case "sync", "sync/atomic":
			return true
		}
	}
	ci, ok := ins.(ssa.CallInstruction)
	if !ok || len(ci.Common().Args) == 0 {
		return false
	}
	if u, ok := ci.Common().Args[0].(*ssa.UnOp); ok {
		if _, isGlobal := u.X.(*ssa.Global); isGlobal {
			return true
		}
	}
	return false
}

// ---------------------------------------------------------------------------------------
// "iterates f(...)" promises, callee side. A function whose contract says that it calls its parameter f only on arguments
// satisfying the iterates-requires clauses must keep that promise: (1) at every direct call of f in its body the clauses are
// obligations; (2) where it hands f on to a callee that makes an iterates promise about the same callback, the callee's
// promise (with the actual arguments) must imply its own, for every callback argument. Callers rely on the promise
// (modelIterate assumes it); without these two checks it was never verified (found by seeded change C18-4).

// iteratedParam: the value of the parameter that the contract of fr.fn iterates, if any.
func (e *Engine) iteratedParam(fr *Frame) (*Contract, Val, bool) {
	ct := e.contractFor(fr.fn)
	if ct == nil || ct.Iter == nil {
		return nil, Val{}, false
	}
	for _, p := range fr.fn.Params {
		if p.Name() == ct.Iter.Param {
			if v, ok := fr.regs[p]; ok {
				return ct, v, true
			}
		}
	}
	return nil, Val{}, false
}

func (e *Engine) iterDirectCall(st *State, fr *Frame, fn Val, args []Val, pos token.Pos, ins ssa.Instruction) {
	ct, pv, ok := e.iteratedParam(fr)
	if !ok || pv.S != fn.S {
		return
	}
	env := &Env{eng: e, st: st, pkg: e.pkgOf(fr.fn), vars: map[string]Val{}, where: "iterates-requires of " + funcDisplayName(fr.fn), oldSnap: st.unitOld, hasOld: true}
	e.localsEnv(st, fr, env)
	for i, f := range ct.Iter.Formals {
		if i < len(args) {
			env.vars[f] = args[i]
		}
	}
	for _, rq := range env.expand(ct.Iter.Requires) {
		name := e.siteName(st, fr, "iterates-requires["+rq.name+"]", pos, ins)
		st.check("iterates", name, rq.term, pos)
	}
}

func (e *Engine) iterPassedOn(st *State, fr *Frame, callee *ssa.Function, cct *Contract, args []Val, pos token.Pos, ins ssa.Instruction) {
	ct, pv, ok := e.iteratedParam(fr)
	if !ok {
		return
	}
	pi := -1
	for i, p := range callee.Params {
		if p.Name() == cct.Iter.Param {
			pi = i
		}
	}
	if pi < 0 || pi >= len(args) || args[pi].S != pv.S || args[pi].C != nil {
		return
	}
	sig, isSig := pv.T.Underlying().(*types.Signature)
	if !isSig {
		return
	}
	// arbitrary callback arguments
	var formals []Val
	for i := 0; i < sig.Params().Len(); i++ {
		v := st.freshVal("iterarg", sig.Params().At(i).Type())
		if ti := typeInv(v.S, sig.Params().At(i).Type()); ti != "" {
			st.assume(ti)
		}
		formals = append(formals, v)
	}
	cenv := &Env{eng: e, st: st, pkg: e.pkgOf(callee), vars: map[string]Val{}, where: "iterates-requires of callee " + funcDisplayName(callee)}
	e.bindParams(cenv, callee, args)
	for i, f := range cct.Iter.Formals {
		if i < len(formals) {
			cenv.vars[f] = formals[i]
		}
	}
	var pre []string
	for _, rq := range cenv.expand(cct.Iter.Requires) {
		pre = append(pre, rq.term)
	}
	env := &Env{eng: e, st: st, pkg: e.pkgOf(fr.fn), vars: map[string]Val{}, where: "iterates-requires of " + funcDisplayName(fr.fn), oldSnap: st.unitOld, hasOld: true}
	e.localsEnv(st, fr, env)
	for i, f := range ct.Iter.Formals {
		if i < len(formals) {
			env.vars[f] = formals[i]
		}
	}
	for _, rq := range env.expand(ct.Iter.Requires) {
		name := e.siteName(st, fr, "iterates-requires["+rq.name+"]@"+funcDisplayName(callee), pos, ins)
		st.check("iterates", name, implies(and(pre...), rq.term), pos)
	}
}
