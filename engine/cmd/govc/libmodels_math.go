package main

// Abstract algebra model of github.com/IBM/mathlib (assumed contracts): *Zr, *G1, *G2, *Gt are heap objects with one
// ghost field `val` of an uninterpreted sort (F, G1, G2, GT). The contracts say which methods are functional (return a
// fresh object) and which mutate their receiver. Only congruence is available to the solver: no field axioms.

import (
	"fmt"
	"go/token"
	"go/types"
	"strings"

	"golang.org/x/tools/go/ssa"
)

const mathPkg = "github.com/IBM/mathlib"

var algPkg = types.NewPackage("alg!", "alg")
var algTypes = map[string]types.Type{}

func algType(name string) types.Type {
	if t, ok := algTypes[name]; ok {
		return t
	}
	t := types.NewNamed(types.NewTypeName(token.NoPos, algPkg, name, nil), types.NewStruct(nil, nil), nil)
	algTypes[name] = t
	return t
}

func algSortOf(t types.Type) (string, bool) {
	if n, ok := t.(*types.Named); ok && n.Obj().Pkg() == algPkg {
		return n.Obj().Name(), true
	}
	return "", false
}

var algDeclared = false

func declareAlgebra() {
	if reg.funs["alg!declared"] {
		return
	}
	reg.funs["alg!declared"] = true
	for _, s := range []string{"F", "G1", "G2", "GT"} {
		reg.decl("(declare-sort " + s + " 0)")
	}
	d := func(name string, args []string, res string) { reg.declareFun(name, args, res) }
	d("f.add", []string{"F", "F"}, "F")
	d("f.sub", []string{"F", "F"}, "F")
	d("f.mul", []string{"F", "F"}, "F")
	d("f.pow", []string{"F", "F"}, "F")
	d("f.inv", []string{"F"}, "F")
	d("f.neg", []string{"F"}, "F")
	d("f.ofint", []string{"Int"}, "F")
	d("f.ofbytes", []string{"Str"}, "F")
	d("f.hash", []string{"Str"}, "F")
	d("f.bytes", []string{"F"}, "Str")
	d("f.string", []string{"F"}, "Str")
	for _, g := range []string{"G1", "G2"} {
		l := strings.ToLower(g)
		d(l+".add", []string{g, g}, g)
		d(l+".sub", []string{g, g}, g)
		d(l+".neg", []string{g}, g)
		d(l+".mul", []string{g, "F"}, g)
		d(l+".ofbytes", []string{"Str"}, g)
		d(l+".valid", []string{"Str"}, "Bool")
		d(l+".bytes", []string{g}, "Str")
		d(l+".string", []string{g}, "Str")
		d(l+".hash", []string{"Str"}, g)
	}
	// encodings are valid and decode to the encoded element (library round trip, assumed)
	for _, g := range []string{"g1", "g2"} {
		G := strings.ToUpper(g)
		reg.decl(fmt.Sprintf("(assert (forall ((x!e %s)) (! (and (%s.valid (%s.bytes x!e)) (= (%s.ofbytes (%s.bytes x!e)) x!e)) :pattern ((%s.bytes x!e)))))", G, g, g, g, g, g))
	}
	d("gt.pair", []string{"G2", "G1"}, "GT")
	d("gt.pair2", []string{"G2", "G1", "G2", "G1"}, "GT")
	d("gt.fexp", []string{"GT"}, "GT")
	d("gt.isunity", []string{"GT"}, "Bool")
}

// kindOf: which algebraic object a Go type denotes (pointer to mathlib Zr/G1/G2/Gt).
func algKind(t types.Type) string {
	n := namedOf(t)
	if n == nil || n.Obj().Pkg() == nil || n.Obj().Pkg().Path() != mathPkg {
		return ""
	}
	switch n.Obj().Name() {
	case "Zr":
		return "F"
	case "G1":
		return "G1"
	case "G2":
		return "G2"
	case "Gt":
		return "GT"
	}
	return ""
}

func algHeap(kind string) (string, string) {
	n, s := "L!alg!"+kind, fmt.Sprintf("(Array Int %s)", kind)
	heapSortOf[n] = s
	return n, s
}

func (e *Engine) algVal(st *State, obj Val) string {
	k := algKind(obj.T)
	hn, hs := algHeap(k)
	return sel(st.heap(hn, hs), obj.S)
}

func (e *Engine) algNew(st *State, t types.Type, val string) Val {
	k := algKind(t)
	r := st.freshRef("alg" + k)
	hn, hs := algHeap(k)
	st.setHeap(hn, hs, store(st.heap(hn, hs), r, val))
	return Val{S: r, T: t}
}

func (e *Engine) algSet(st *State, obj Val, val string) {
	k := algKind(obj.T)
	hn, hs := algHeap(k)
	st.setHeap(hn, hs, store(st.heap(hn, hs), obj.S, val))
}

func (e *Engine) algNonNil(st *State, fr *Frame, vals []Val, pos token.Pos, ins ssa.Instruction) {
	for _, v := range vals {
		if v.T == nil || algKind(v.T) == "" {
			continue
		}
		if strings.HasPrefix(v.S, "alg") {
			continue
		}
		name := e.siteName(st, fr, "nil-deref", pos, ins)
		st.check("nil-deref", name, not(eq(v.S, "0")), pos)
	}
}

func init() {
	m := func(name string, f libModel) {
		libModels[name] = func(e *Engine, st *State, fr *Frame, args []Val, resT types.Type, pos token.Pos, ins ssa.Instruction) Val {
			declareAlgebra()
			used(e, "github.com/IBM/mathlib: abstract algebra model (uninterpreted field and groups; Plus/Mul/Copy/PowMod/ModSub/ModNeg/G.Mul return fresh objects, Mod/InvModP/Add/Sub mutate the receiver; *FromBytes total, err == nil iff the point is valid; methods panic on nil operands: obligations)")
			e.algNonNil(st, fr, args, pos, ins)
			return f(e, st, fr, args, resT, pos, ins)
		}
	}
	zr := "(*" + mathPkg + ".Zr)."
	cv := "(*" + mathPkg + ".Curve)."
	bin := func(op string) libModel {
		return func(e *Engine, st *State, fr *Frame, args []Val, resT types.Type, pos token.Pos, ins ssa.Instruction) Val {
			return e.algNew(st, resT, fmt.Sprintf("(%s %s %s)", op, e.algVal(st, args[0]), e.algVal(st, args[1])))
		}
	}
	m(zr+"Plus", bin("f.add"))
	m(zr+"Mul", bin("f.mul"))
	m(zr+"PowMod", bin("f.pow"))
	m(zr+"Copy", func(e *Engine, st *State, fr *Frame, args []Val, resT types.Type, pos token.Pos, ins ssa.Instruction) Val {
		return e.algNew(st, resT, e.algVal(st, args[0]))
	})
	m(zr+"Mod", func(e *Engine, st *State, fr *Frame, args []Val, resT types.Type, pos token.Pos, ins ssa.Instruction) Val {
		return Val{} // reduction modulo the group order: the abstract field value is unchanged
	})
	m(zr+"InvModP", func(e *Engine, st *State, fr *Frame, args []Val, resT types.Type, pos token.Pos, ins ssa.Instruction) Val {
		e.algSet(st, args[0], "(f.inv "+e.algVal(st, args[0])+")")
		return Val{}
	})
	m(zr+"Bytes", func(e *Engine, st *State, fr *Frame, args []Val, resT types.Type, pos token.Pos, ins ssa.Instruction) Val {
		return e.freshBytes(st, resT, "(f.bytes "+e.algVal(st, args[0])+")", "zrbytes")
	})
	m(zr+"String", func(e *Engine, st *State, fr *Frame, args []Val, resT types.Type, pos token.Pos, ins ssa.Instruction) Val {
		return Val{S: "(f.string " + e.algVal(st, args[0]) + ")", T: resT}
	})
	m(zr+"Equals", func(e *Engine, st *State, fr *Frame, args []Val, resT types.Type, pos token.Pos, ins ssa.Instruction) Val {
		return Val{S: eq(e.algVal(st, args[0]), e.algVal(st, args[1])), T: tBool}
	})
	m(cv+"NewZrFromInt", func(e *Engine, st *State, fr *Frame, args []Val, resT types.Type, pos token.Pos, ins ssa.Instruction) Val {
		return e.algNew(st, resT, "(f.ofint "+args[1].S+")")
	})
	m(cv+"NewZrFromBytes", func(e *Engine, st *State, fr *Frame, args []Val, resT types.Type, pos token.Pos, ins ssa.Instruction) Val {
		return e.algNew(st, resT, "(f.ofbytes "+e.contentOf(st, args[1])+")")
	})
	m(cv+"NewRandomZr", func(e *Engine, st *State, fr *Frame, args []Val, resT types.Type, pos token.Pos, ins ssa.Instruction) Val {
		return e.algNew(st, resT, st.freshConst("rnd", "F"))
	})
	m(cv+"HashToZr", func(e *Engine, st *State, fr *Frame, args []Val, resT types.Type, pos token.Pos, ins ssa.Instruction) Val {
		return e.algNew(st, resT, "(f.hash "+e.contentOf(st, args[1])+")")
	})
	m(cv+"ModSub", func(e *Engine, st *State, fr *Frame, args []Val, resT types.Type, pos token.Pos, ins ssa.Instruction) Val {
		return e.algNew(st, resT, fmt.Sprintf("(f.sub %s %s)", e.algVal(st, args[1]), e.algVal(st, args[2])))
	})
	m(cv+"ModNeg", func(e *Engine, st *State, fr *Frame, args []Val, resT types.Type, pos token.Pos, ins ssa.Instruction) Val {
		return e.algNew(st, resT, "(f.neg "+e.algVal(st, args[1])+")")
	})
	m(cv+"HashToG1", func(e *Engine, st *State, fr *Frame, args []Val, resT types.Type, pos token.Pos, ins ssa.Instruction) Val {
		return e.algNew(st, resT, "(g1.hash "+e.contentOf(st, args[1])+")")
	})
	for _, g := range []string{"G1", "G2"} {
		g := g
		l := strings.ToLower(g)
		gp := "(*" + mathPkg + "." + g + ")."
		m(cv+"New"+g+"FromBytes", func(e *Engine, st *State, fr *Frame, args []Val, resT types.Type, pos token.Pos, ins ssa.Instruction) Val {
			c := e.contentOf(st, args[1])
			ot := resTypeAt(resT, 0)
			obj := e.algNew(st, ot, "("+l+".ofbytes "+c+")")
			ok := "(" + l + ".valid " + c + ")"
			er := st.freshVal("pterr", resTypeAt(resT, 1))
			st.assume(eq(eq(ifTyp(er.S), "0"), ok))
			return tupleOf(resT, Val{S: ite(ok, obj.S, "0"), T: ot}, er)
		})
		m(gp+"Mul", func(e *Engine, st *State, fr *Frame, args []Val, resT types.Type, pos token.Pos, ins ssa.Instruction) Val {
			return e.algNew(st, resT, fmt.Sprintf("(%s.mul %s %s)", l, e.algVal(st, args[0]), e.algVal(st, args[1])))
		})
		m(gp+"Copy", func(e *Engine, st *State, fr *Frame, args []Val, resT types.Type, pos token.Pos, ins ssa.Instruction) Val {
			return e.algNew(st, resT, e.algVal(st, args[0]))
		})
		m(gp+"Add", func(e *Engine, st *State, fr *Frame, args []Val, resT types.Type, pos token.Pos, ins ssa.Instruction) Val {
			e.algSet(st, args[0], fmt.Sprintf("(%s.add %s %s)", l, e.algVal(st, args[0]), e.algVal(st, args[1])))
			return Val{}
		})
		m(gp+"Sub", func(e *Engine, st *State, fr *Frame, args []Val, resT types.Type, pos token.Pos, ins ssa.Instruction) Val {
			e.algSet(st, args[0], fmt.Sprintf("(%s.sub %s %s)", l, e.algVal(st, args[0]), e.algVal(st, args[1])))
			return Val{}
		})
		m(gp+"Bytes", func(e *Engine, st *State, fr *Frame, args []Val, resT types.Type, pos token.Pos, ins ssa.Instruction) Val {
			return e.freshBytes(st, resT, "("+l+".bytes "+e.algVal(st, args[0])+")", l+"bytes")
		})
		m(gp+"String", func(e *Engine, st *State, fr *Frame, args []Val, resT types.Type, pos token.Pos, ins ssa.Instruction) Val {
			return Val{S: "(" + l + ".string " + e.algVal(st, args[0]) + ")", T: resT}
		})
		m(gp+"Equals", func(e *Engine, st *State, fr *Frame, args []Val, resT types.Type, pos token.Pos, ins ssa.Instruction) Val {
			return Val{S: eq(e.algVal(st, args[0]), e.algVal(st, args[1])), T: tBool}
		})
	}
	m(cv+"Pairing2", func(e *Engine, st *State, fr *Frame, args []Val, resT types.Type, pos token.Pos, ins ssa.Instruction) Val {
		return e.algNew(st, resT, fmt.Sprintf("(gt.pair2 %s %s %s %s)", e.algVal(st, args[1]), e.algVal(st, args[2]), e.algVal(st, args[3]), e.algVal(st, args[4])))
	})
	m(cv+"Pairing", func(e *Engine, st *State, fr *Frame, args []Val, resT types.Type, pos token.Pos, ins ssa.Instruction) Val {
		return e.algNew(st, resT, fmt.Sprintf("(gt.pair %s %s)", e.algVal(st, args[1]), e.algVal(st, args[2])))
	})
	m(cv+"FExp", func(e *Engine, st *State, fr *Frame, args []Val, resT types.Type, pos token.Pos, ins ssa.Instruction) Val {
		return e.algNew(st, resT, "(gt.fexp "+e.algVal(st, args[1])+")")
	})
	m("(*"+mathPkg+".Gt).IsUnity", func(e *Engine, st *State, fr *Frame, args []Val, resT types.Type, pos token.Pos, ins ssa.Instruction) Val {
		return Val{S: "(gt.isunity " + e.algVal(st, args[0]) + ")", T: tBool}
	})
}

// contract built-ins over the abstract algebra
func (e *Engine) algBuiltin(env *Env, name string, ex *SExpr) (Val, bool) {
	arg := func(i int) Val { return env.eval(ex.Args[i]) }
	mk := func(sort string, term string) (Val, bool) {
		return Val{S: term, T: algType(sort)}, true
	}
	str := func(v Val) string { return env.content(v) }
	bin := func(fn, res string) (Val, bool) {
		declareAlgebra()
		return mk(res, fmt.Sprintf("(%s %s %s)", fn, arg(0).S, arg(1).S))
	}
	un := func(fn, res string) (Val, bool) {
		declareAlgebra()
		return mk(res, fmt.Sprintf("(%s %s)", fn, arg(0).S))
	}
	switch name {
	case "vals":
		// vals(s): the sequence of values of a slice: field/group values of []*Zr / []*G1 / []*G2, the integers of an integer
		// slice. A total function from int (outside 0..len-1 it is whatever the heaps hold there: never constrained by a
		// contract that guards its indices). Defined by a fresh array constant and a pointwise definitional axiom.
		declareAlgebra()
		if env.st == nil {
			return Val{}, false
		}
		sv := arg(0)
		if strings.Contains(sv.S, "q!") {
			env.errf("vals(): the slice may not depend on a quantified variable")
			return Val{}, false
		}
		slt, ok := sv.T.Underlying().(*types.Slice)
		if !ok {
			env.errf("vals() needs a slice: %s", ex)
			return Val{}, false
		}
		hn, hs := elemHeapName(slt.Elem())
		row := sel(env.heap(hn, hs), slRef(sv.S))
		off := slOff(sv.S)
		var et types.Type
		var es, at string
		if k := algKind(slt.Elem()); k != "" {
			an, as := algHeap(k)
			et, es = algType(k), k
			at = sel(env.heap(an, as), sel(row, ix(off, "i!v")))
		} else if sortOf(slt.Elem()) == "Int" {
			et, es = types.Typ[types.Int], "Int"
			at = sel(row, ix(off, "i!v"))
		} else {
			env.errf("vals() needs a slice of field/group elements or of integers: %s", ex)
			return Val{}, false
		}
		ckey := "vals|" + at
		w, seen := env.st.elemsDone[ckey]
		if !seen {
			w = env.st.freshConst("vals", fmt.Sprintf("(Array Int %s)", es))
			env.st.assume(fmt.Sprintf("(forall ((i!v Int)) (! (= (select %s i!v) %s) :pattern ((select %s i!v))))", w, at, w))
			nd := make(map[string]string, len(env.st.elemsDone)+1)
			for k, v := range env.st.elemsDone {
				nd[k] = v
			}
			nd[ckey] = w
			env.st.elemsDone = nd
		}
		return Val{S: w, T: &ghostMapType{key: types.Typ[types.Int], elem: et}}, true
	case "val":
		declareAlgebra()
		x := arg(0)
		k := algKind(x.T)
		if k == "" {
			env.errf("val() needs a *math.Zr / *math.G1 / *math.G2 / *math.Gt: %s", ex)
			return Val{}, false
		}
		hn, hs := algHeap(k)
		return mk(k, sel(env.heap(hn, hs), x.S))
	case "fadd":
		return bin("f.add", "F")
	case "fsub":
		return bin("f.sub", "F")
	case "fmul":
		return bin("f.mul", "F")
	case "fpow":
		return bin("f.pow", "F")
	case "finv":
		return un("f.inv", "F")
	case "fneg":
		return un("f.neg", "F")
	case "fint":
		return un("f.ofint", "F")
	case "fofbytes":
		declareAlgebra()
		return mk("F", "(f.ofbytes "+str(arg(0))+")")
	case "fbytes":
		declareAlgebra()
		return Val{S: "(f.bytes " + arg(0).S + ")", T: tString}, true
	case "g1add":
		return bin("g1.add", "G1")
	case "g2add":
		return bin("g2.add", "G2")
	case "g1sub":
		return bin("g1.sub", "G1")
	case "g2sub":
		return bin("g2.sub", "G2")
	case "g1mul":
		return bin("g1.mul", "G1")
	case "g2mul":
		return bin("g2.mul", "G2")
	case "g1ofbytes":
		declareAlgebra()
		return mk("G1", "(g1.ofbytes "+str(arg(0))+")")
	case "g2ofbytes":
		declareAlgebra()
		return mk("G2", "(g2.ofbytes "+str(arg(0))+")")
	case "g1valid":
		declareAlgebra()
		return Val{S: "(g1.valid " + str(arg(0)) + ")", T: tBool}, true
	case "g2valid":
		declareAlgebra()
		return Val{S: "(g2.valid " + str(arg(0)) + ")", T: tBool}, true
	case "g1bytes":
		declareAlgebra()
		return Val{S: "(g1.bytes " + arg(0).S + ")", T: tString}, true
	case "g2bytes":
		declareAlgebra()
		return Val{S: "(g2.bytes " + arg(0).S + ")", T: tString}, true
	case "g1hash":
		declareAlgebra()
		return mk("G1", "(g1.hash "+str(arg(0))+")")
	case "fhash":
		declareAlgebra()
		return mk("F", "(f.hash "+str(arg(0))+")")
	case "pair2":
		declareAlgebra()
		return mk("GT", fmt.Sprintf("(gt.pair2 %s %s %s %s)", arg(0).S, arg(1).S, arg(2).S, arg(3).S))
	case "fexp":
		return un("gt.fexp", "GT")
	case "isunity":
		declareAlgebra()
		return Val{S: "(gt.isunity " + arg(0).S + ")", T: tBool}, true
	}
	return Val{}, false
}

// ---------------------------------------------------------------------------------------
// math/big: just enough for range checks on identifiers (C19): an Int object has an integer value (ghost heap L!big!val)

func bigVal(st *State, ref string) string {
	heapSortOf["L!big!val"] = "(Array Int Int)"
	return sel(st.heap("L!big!val", "(Array Int Int)"), ref)
}

func init() {
	libModels["math/big.NewInt"] = func(e *Engine, st *State, fr *Frame, args []Val, resT types.Type, pos token.Pos, ins ssa.Instruction) Val {
		used(e, "math/big.NewInt(x): a new Int whose value is x")
		r := st.freshRef("big")
		heapSortOf["L!big!val"] = "(Array Int Int)"
		st.setHeap("L!big!val", "(Array Int Int)", store(st.heap("L!big!val", "(Array Int Int)"), r, args[0].S))
		return Val{S: r, T: resT}
	}
	libModels["(*math/big.Int).SetBytes"] = func(e *Engine, st *State, fr *Frame, args []Val, resT types.Type, pos token.Pos, ins ssa.Instruction) Val {
		used(e, "math/big.Int.SetBytes(b): the receiver becomes the non-negative integer with big-endian representation b (a function of the bytes: leading zero bytes do not change it) and is returned")
		reg.declareFun("lib!beint", []string{"Str"}, "Int")
		name := e.siteName(st, fr, "nil-deref", pos, ins)
		st.check("nil-deref", name, not(eq(args[0].S, "0")), pos)
		v := "(lib!beint " + e.contentOf(st, args[1]) + ")"
		st.assume("(>= " + v + " 0)")
		heapSortOf["L!big!val"] = "(Array Int Int)"
		st.setHeap("L!big!val", "(Array Int Int)", store(st.heap("L!big!val", "(Array Int Int)"), args[0].S, v))
		return Val{S: args[0].S, T: resT}
	}
	libModels["(*math/big.Int).Cmp"] = func(e *Engine, st *State, fr *Frame, args []Val, resT types.Type, pos token.Pos, ins ssa.Instruction) Val {
		used(e, "math/big.Int.Cmp: -1, 0, +1 according to the order of the two values; panics on a nil receiver or argument")
		a, b := bigVal(st, args[0].S), bigVal(st, args[1].S)
		return Val{S: ite("(< "+a+" "+b+")", "(- 1)", ite(eq(a, b), "0", "1")), T: resT}
	}
	libModels["(*math/big.Int).Uint64"] = func(e *Engine, st *State, fr *Frame, args []Val, resT types.Type, pos token.Pos, ins ssa.Instruction) Val {
		used(e, "math/big.Int.Uint64: the value when it is in 0..2^64-1, unspecified otherwise")
		a := bigVal(st, args[0].S)
		v := st.freshVal("biguint", resT)
		st.assume(implies("(and (<= 0 "+a+") (< "+a+" 18446744073709551616))", eq(v.S, a)))
		return v
	}
}
