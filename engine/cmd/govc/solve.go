package main

// Discharging obligations: SMT-LIB files, solver race (z3-new, z3, cvc5), model extraction.

import (
	"bytes"
	"context"
	"fmt"
	"os"
	"os/exec"
	"path/filepath"
	"strings"
	"sync"
	"sync/atomic"
	"time"
)

type solverSpec struct {
	name string
	cmd  func(file string, timeout float64) []string
}

var solvers = []solverSpec{
	{"z3-new", func(f string, t float64) []string { return []string{"z3-new", fmt.Sprintf("-T:%d", int(t+1)), f} }},
	{"z3", func(f string, t float64) []string { return []string{"/usr/bin/z3", fmt.Sprintf("-T:%d", int(t+1)), f} }},
	{"cvc5", func(f string, t float64) []string {
		return []string{"cvc5", "--produce-models", "--full-saturate-quant", fmt.Sprintf("--tlimit=%d", int(t*1000)), f}
	}},
}

var fileCounter int64

func (e *Engine) writeQuery(decls, pc []string, goal string, inputs []InputTerm) string {
	return e.writeQueryV(decls, pc, goal, inputs, false)
}

// writeQueryV: qf=true drops every quantified assumption (a weaker antecedent: unsat stays sound, sat is only a
// candidate model).
func (e *Engine) writeQueryV(decls, pc []string, goal string, inputs []InputTerm, qf bool) string {
	return e.writeQueryL(decls, pc, goal, inputs, qf, false)
}

// isBackgroundAxiom: well-typed-heap, heap-closedness, map-key typing and boxing axioms. Dropping them is a sound
// weakening of the antecedent; they are what most often makes E-matching wander.
func isBackgroundAxiom(a string) bool {
	return strings.HasPrefix(a, "(forall ((r!t ") || strings.Contains(a, "(forall ((i!n Int))") && strings.HasPrefix(a, "(and (<= 0 (s.len")
}

// writeQueryL: light=true drops the background axioms (sound weakening).
func (e *Engine) writeQueryL(decls, pc []string, goal string, inputs []InputTerm, qf, light bool) string {
	var b bytes.Buffer
	b.WriteString(preamble)
	if !qf {
		b.WriteString("(set-option :smt.mbqi false)\n")
		b.WriteString(idxAxiom)
	} else {
		b.WriteString(idxDef)
	}
	for _, d := range reg.order {
		if qf && strings.Contains(d, "(forall ") {
			continue
		}
		if light && strings.HasPrefix(d, "(assert (forall ((x ") {
			continue // boxing axioms
		}
		b.WriteString(d)
		b.WriteByte('\n')
	}
	for _, d := range decls {
		b.WriteString(d)
		b.WriteByte('\n')
	}
	for _, a := range pc {
		if qf && (strings.Contains(a, "(forall ") || strings.Contains(a, "(exists ")) {
			continue
		}
		if light && isBackgroundAxiom(a) {
			continue
		}
		b.WriteString("(assert ")
		b.WriteString(a)
		b.WriteString(")\n")
	}
	b.WriteString("(assert (not ")
	b.WriteString(goal)
	b.WriteString("))\n(check-sat)\n")
	if len(inputs) > 0 {
		for _, in := range inputs {
			fmt.Fprintf(&b, "(get-value (%s))\n", in.Term)
		}
	}
	n := atomic.AddInt64(&fileCounter, 1)
	f := filepath.Join(e.tmpdir, fmt.Sprintf("q%d.smt2", n))
	os.WriteFile(f, b.Bytes(), 0o644)
	return f
}

type solveResult struct {
	status string
	solver string
	time   float64
	output string
}

func runSolver(s solverSpec, file string, timeout float64) solveResult {
	ctx, cancel := context.WithTimeout(context.Background(), time.Duration((timeout+2)*float64(time.Second)))
	defer cancel()
	args := s.cmd(file, timeout)
	start := time.Now()
	cmd := exec.CommandContext(ctx, args[0], args[1:]...)
	out, _ := cmd.CombinedOutput()
	el := time.Since(start).Seconds()
	text := string(out)
	// skip notices such as cvc5's "unsupported" (answer to a z3-specific option)
	for strings.HasPrefix(text, "unsupported\n") {
		text = text[len("unsupported\n"):]
	}
	first := strings.TrimSpace(strings.SplitN(text, "\n", 2)[0])
	st := "unknown"
	switch first {
	case "unsat":
		st = "unsat"
	case "sat":
		st = "sat"
	case "timeout":
		st = "timeout"
	case "unknown":
		st = "unknown"
	default:
		if ctx.Err() != nil {
			st = "timeout"
		} else if strings.Contains(first, "error") || strings.Contains(first, "Error") {
			st = "error"
		}
	}
	return solveResult{status: st, solver: s.name, time: el, output: text}
}

// solveFile: z3-new first with a short budget (most goals are immediate), then all three raced.
func (e *Engine) solveFile(file string, timeout float64) solveResult {
	quick := 2.0
	if timeout < quick {
		quick = timeout
	}
	r := runSolver(solvers[0], file, quick)
	if r.status == "unsat" || r.status == "sat" {
		return r
	}
	firstErr := r
	ch := make(chan solveResult, len(solvers))
	for _, s := range solvers {
		s := s
		go func() { ch <- runSolver(s, file, timeout) }()
	}
	var last solveResult
	got := 0
	for got < len(solvers) {
		x := <-ch
		got++
		if x.status == "unsat" || x.status == "sat" {
			return x
		}
		if last.status == "" || x.status == "unknown" {
			last = x
		}
	}
	if last.status == "error" && firstErr.status != "error" {
		return firstErr
	}
	return last
}

func hasQuant(o *Obligation) bool {
	if strings.Contains(o.Goal, "(forall ") || strings.Contains(o.Goal, "(exists ") {
		return true
	}
	for _, a := range o.PC {
		if strings.Contains(a, "(forall ") || strings.Contains(a, "(exists ") {
			return true
		}
	}
	for _, d := range reg.order {
		if strings.Contains(d, "(forall ") {
			return true
		}
	}
	return false
}

var stepTime [4]int64
var stepCount [4]int64

func (e *Engine) solveObligation(o *Obligation) {
	if o.Status == "error" {
		return
	}
	t0 := time.Now()
	defer func() {
		k := 3
		switch {
		case strings.Contains(o.Solver, "(qf"):
			k = 0
		case strings.Contains(o.Solver, "(light)"):
			k = 1
		case o.Status == "unsat":
			k = 2
		}
		if k >= 2 && os.Getenv("GOVC_STEPS") != "" && time.Since(t0) > 500*time.Millisecond {
			fmt.Printf("FULLSTEP %dms %s %s %s\n", int64(time.Since(t0)/time.Millisecond), o.Status, o.Solver, o.Name)
		}
		atomic.AddInt64(&stepTime[k], int64(time.Since(t0)/time.Millisecond))
		atomic.AddInt64(&stepCount[k], 1)
	}()
	// step 1: quantifier-free weakening (goal kept as is): decides most safety obligations at once
	var cand *solveResult
	if !strings.Contains(o.Goal, "(forall ") && !strings.Contains(o.Goal, "(exists ") {
		qf := e.writeQueryV(o.Decls, o.PC, o.Goal, o.Inputs, true)
		r := runSolver(solvers[0], qf, 3)
		if r.status != "unsat" && r.status != "sat" {
			r = runSolver(solvers[2], qf, 3)
		}
		if r.status == "unsat" {
			o.Status, o.Solver, o.Time = "unsat", r.solver+"(qf)", r.time
			rmq(qf)
			return
		}
		if r.status == "sat" {
			cand = &r
			if !hasQuant(o) {
				o.Status, o.Solver, o.Time = "sat", r.solver, r.time
				o.Model = parseModel(r.output, o.Inputs)
				o.Output = firstLines(r.output, 3)
				o.QueryFile = qf
				return
			}
		}
		rmq(qf)
	}
	if !o.ExpectSat {
		// step 2: the full query with a short budget (most discharge well under a second)
		ff := e.writeQuery(o.Decls, o.PC, o.Goal, nil)
		r := runSolver(solvers[0], ff, 2)
		rmq(ff)
		if r.status == "unsat" {
			o.Status, o.Solver, o.Time = "unsat", r.solver, r.time
			return
		}
		// step 3: without the background axioms (typing of heaps, boxing): a sound weakening that keeps the
		// contract-level quantified facts; rescues goals on which E-matching wanders
		lf := e.writeQueryL(o.Decls, o.PC, o.Goal, nil, false, true)
		r = runSolver(solvers[0], lf, 3)
		rmq(lf)
		if r.status == "unsat" {
			o.Status, o.Solver, o.Time = "unsat", r.solver+"(light)", r.time
			return
		}
	}
	file := e.writeQuery(o.Decls, o.PC, o.Goal, o.Inputs)
	if o.ExpectSat && cand != nil {
		// vacuity guard: the quantifier-free part is satisfiable; give the solvers a short time to refute the rest
		r := runSolver(solvers[1], file, 2)
		if r.status == "unsat" {
			o.Status, o.Solver, o.Time = "unsat", r.solver, r.time
			o.QueryFile = file
			return
		}
		o.Status, o.Solver, o.Time = "sat", cand.solver+"(qf; not refuted with quantifiers)", cand.time
		rmq(file)
		return
	}
	r := e.solveFile(file, e.solverTimeout)
	o.Status, o.Solver, o.Time = r.status, r.solver, r.time
	if r.status != "unsat" && r.status != "sat" && cand != nil {
		// the full query is undecided but the weakened one has a model: a candidate counterexample
		o.Status = "sat"
		o.Candidate = true
		o.Solver = cand.solver + "(qf-candidate)"
		o.Model = parseModel(cand.output, o.Inputs)
		o.Output = firstLines(cand.output, 3)
		o.QueryFile = file
		return
	}
	if r.status == "sat" {
		o.Model = parseModel(r.output, o.Inputs)
		o.Output = firstLines(r.output, 3)
		o.QueryFile = file
		return
	}
	if r.status != "unsat" {
		o.Output = firstLines(r.output, 6)
		o.QueryFile = file
		return
	}
	rmq(file)
}

func firstLines(s string, n int) string {
	ls := strings.Split(s, "\n")
	if len(ls) > n {
		ls = ls[:n]
	}
	return strings.Join(ls, "\n")
}

// parseModel reads the (get-value) answers that follow "sat".
func parseModel(out string, inputs []InputTerm) map[string]string {
	m := map[string]string{}
	rest := out
	if i := strings.Index(rest, "\n"); i >= 0 {
		rest = rest[i+1:]
	}
	// answers come in order, one s-expression "((term value))" per get-value
	vals := splitArgs(rest)
	for i, v := range vals {
		if i >= len(inputs) {
			break
		}
		v = strings.TrimSpace(v)
		if !strings.HasPrefix(v, "((") {
			continue
		}
		inner := splitArgs(v[1 : len(v)-1])
		if len(inner) != 1 {
			continue
		}
		pair := splitArgs(inner[0][1 : len(inner[0])-1])
		if len(pair) < 2 {
			continue
		}
		m[inputs[i].Name] = normValue(pair[len(pair)-1])
	}
	return m
}

func normValue(v string) string {
	v = strings.TrimSpace(v)
	if strings.HasPrefix(v, "(- ") && strings.HasSuffix(v, ")") {
		return "-" + strings.TrimSpace(v[3:len(v)-1])
	}
	return v
}

func (e *Engine) solveAll() {
	var wg sync.WaitGroup
	ch := make(chan *Obligation)
	for i := 0; i < e.workers; i++ {
		wg.Add(1)
		go func() {
			defer wg.Done()
			for o := range ch {
				e.solveObligation(o)
			}
		}()
	}
	for _, o := range e.obligations {
		if o.Status == "" {
			ch <- o
		}
	}
	close(ch)
	wg.Wait()
}

type batchResult struct {
	idx    int
	status string
}

// solveBatch discharges candidate-invariant checks synchronously (used while exploring).
func (e *Engine) solveBatch(checks []candCheck) []batchResult {
	res := make([]batchResult, len(checks))
	var wg sync.WaitGroup
	sem := make(chan struct{}, e.workers)
	for i, c := range checks {
		wg.Add(1)
		sem <- struct{}{}
		go func(i int, c candCheck) {
			defer wg.Done()
			defer func() { <-sem }()
			// quantifier-free weakening: a candidate that needs quantified facts is simply dropped (always sound);
			// heap-frame candidates are quantified themselves and get the full query
			file := e.writeQueryV(c.decls, c.pc, c.goal, nil, !c.quant)
			r := runSolver(solvers[0], file, 3)
			if c.quant && r.status != "unsat" {
				r = runSolver(solvers[1], file, 3)
			}
			if os.Getenv("GOVC_HOUDINI") != "" && r.status != "unsat" {
				fmt.Fprintf(os.Stderr, "HOUDINI query kept: %s (%s)\n", file, r.status)
			} else {
				rmq(file)
			}
			res[i] = batchResult{idx: c.idx, status: r.status}
		}(i, c)
	}
	wg.Wait()
	return res
}

// rmq removes a query file unless GOVC_KEEPALL is set (debugging: keep the queries of discharged obligations too).
func rmq(f string) {
	if os.Getenv("GOVC_KEEPALL") == "" {
		os.Remove(f)
	}
}
