package main

// Symbolic state: frames, local cells, heaps, path condition, obligations.

import (
	"fmt"
	"go/token"
	"go/types"
	"strings"

	"golang.org/x/tools/go/ssa"
)

type Val struct {
	S   string // SMT term
	T   types.Type
	Tup []Val
	A   *Addr    // known address (pointer values)
	C   *Closure // known function (func values)
}

type Closure struct {
	Fn       *ssa.Function
	Bindings []Val
}

type AddrKind int

const (
	ALocal AddrKind = iota
	AField
	AElem
	ACell
	AGlobal
)

type PathStep struct {
	Field int           // struct field index (if Idx == "")
	ST    *types.Struct // struct type for field step
	STT   types.Type    // (possibly named) struct type
	Idx   string        // array index term (array step)
	AT    *types.Array
}

type Addr struct {
	Kind  AddrKind
	Alloc *ssa.Alloc // ALocal
	Frame *Frame     // ALocal: owning frame
	Base  string     // AField/AElem/ACell: ref term
	Idx   string     // AElem: absolute index in backing array
	ST    *types.Struct
	STT   types.Type
	Field int
	Glob  *ssa.Global
	RootT types.Type // type stored at the root location
	Path  []PathStep
	T     types.Type // pointee type
}

type deferred struct {
	call *ssa.CallCommon
	fn   Val
	args []Val
	pos  token.Pos
}

type Frame struct {
	fn       *ssa.Function
	regs     map[ssa.Value]Val
	locals   map[*ssa.Alloc]Val
	block    *ssa.BasicBlock
	prev     *ssa.BasicBlock
	ip       int
	defers   []deferred
	freeVars []Val
	retInto  ssa.Value // call instruction in the caller whose value receives the result (nil for top or defers)
	isDefer  bool      // frame was pushed by RunDefers
	isGoStmt bool
	loopSeen map[*ssa.BasicBlock]*loopCtx
	onReturn func(st *State, results []Val) // hook run when this frame returns (contracts of inlined calls etc.)
}

type loopCtx struct {
	mode      int // 0 real, 1 discover, 2 houdini, 3 unrolled
	cands     []cand
	remaining int
	doneAtEntry map[string]bool // discovery: contexts already known to be done when the loop was entered
}

type Obligation struct {
	Name   string
	Kind   string
	Func   string
	Pos    string
	Decls  []string
	PC     []string
	Goal   string
	Trace  []string
	Inputs []InputTerm // terms describing the inputs of the unit, for model extraction
	// results
	Status string // unsat | sat | unknown | timeout | error
	Solver string
	Time   float64
	Model  map[string]string
	Output string
	ExpectSat bool
	Candidate bool
	// replay information
	ReplayFn      string
	ReplayModule  string
	ReplayPkgDir  string
	ReplayPkgName string
	ReplayParams  []string
	QueryFile string
}

type InputTerm struct {
	Name string
	Term string
}

type State struct {
	eng     *Engine
	unit    *Unit
	frames  []*Frame
	decls   []string
	pc      []string
	heaps   map[string]string // heap name -> current SMT symbol
	hsort   map[string]string // heap name -> sort
	writes  map[string]bool   // heaps written (for loop discovery); nil when not recording
	lwrites map[*ssa.Alloc]bool
	trace   []string
	locks   []heldLock
	cellVal map[string]Val // metadata cache for heap cells (closures / addresses)
	quiet   int            // >0: obligations suppressed (discovery passes)
	dead    bool
	depth   int
	ghostOK bool
	inputs  []InputTerm
	events  []string
	collect *[]candCheck // houdini: collected candidate checks at back edges
	steps   int
	doneChan  map[string]string // channel term -> context term (results of ctx.Done())
	ctxDone   map[string]bool   // contexts whose Done channel was received from on this path
	elemsDone   map[string]string // row|off -> named row for which the elems axioms were already assumed on this path (copy on write)
	pendingDone map[string]string // set by a call by contract whose postcondition mentions done(ctx): split after the call
	skipStable  bool // the instruction being executed havocked guarded state on behalf of other threads (Cond.Wait)
	lastRelease map[string]map[string]string // lock key -> heaps at this path's last release (copy on write)
	gvars     map[string]Val // mutable ghost variables of the unit
	onceDepth int
	hashEmpty map[string]bool // hashers known to be in their initial (empty) state on this path
	stop    *stopCtx
	init    map[string]string // first symbol of every heap (its value at unit entry)
	unitOld map[string]string // snapshot for old() in the unit's own contract: empty = initial symbols
}

type heldLock struct {
	key  string // syntactic key of the lock address
	mode string // "W" or "R"
	mon  *Monitor
	base string
	stt  types.Type
	snap map[string]string // heaps when the critical section began (for the monitor's stable clauses)
}

type candCheck struct {
	idx   int
	quant bool
	goal  string
	decls []string
	pc    []string
}

var freshCounter int

func fresh(prefix string) string {
	freshCounter++
	return fmt.Sprintf("%s!%d", sanitize(prefix), freshCounter)
}

func (st *State) top() *Frame { return st.frames[len(st.frames)-1] }

// declare a fresh constant of the given sort
func (st *State) freshConst(prefix, sort string) string {
	n := fresh(prefix)
	st.decls = append(st.decls, fmt.Sprintf("(declare-const %s %s)", n, sort))
	return n
}

func (st *State) assume(term string) {
	if term == "" || term == "true" {
		return
	}
	st.pc = append(st.pc, term)
}

// freshVal makes a fresh value of Go type t, with its type-range assumption.
func (st *State) freshVal(prefix string, t types.Type) Val {
	if tup, ok := t.(*types.Tuple); ok {
		v := Val{T: t}
		for i := 0; i < tup.Len(); i++ {
			v.Tup = append(v.Tup, st.freshVal(fmt.Sprintf("%s_%d", prefix, i), tup.At(i).Type()))
		}
		return v
	}
	n := st.freshConst(prefix, sortOf(t))
	st.assumeTypeInv(n, t)
	return Val{S: n, T: t}
}

// assumeTypeInv adds the Go type invariants of a value (integer range, slice header shape, string length).
func (st *State) assumeTypeInv(term string, t types.Type) {
	st.assume(typeInv(term, t))
}

// typeInvQF: the quantifier-free part of the type invariant (usable inside quantifier bodies).
func typeInvQF(term string, t types.Type) string {
	if b, ok := t.Underlying().(*types.Basic); ok && b.Info()&types.IsString != 0 {
		return fmt.Sprintf("(and (<= 0 %s) (<= %s 1099511627776))", strLen(term), strLen(term))
	}
	if u, ok := t.Underlying().(*types.Struct); ok {
		var cs []string
		name := reg.structSort(u, typeHint(t))
		for i := 0; i < u.NumFields(); i++ {
			cs = append(cs, typeInvQF(fmt.Sprintf("(%s_f%d %s)", name, i, term), u.Field(i).Type()))
		}
		return and(cs...)
	}
	return typeInv(term, t)
}

func typeInv(term string, t types.Type) string {
	switch u := t.Underlying().(type) {
	case *types.Basic:
		if u.Info()&types.IsInteger != 0 {
			return rangePred(term, t)
		}
		if u.Info()&types.IsString != 0 {
			// strings are normalised (0 outside [0,len)) so that SMT equality is content equality
			return fmt.Sprintf("(and (<= 0 %s) (<= %s 1099511627776) (forall ((i!n Int)) (! (and (<= 0 (select %s i!n)) (< (select %s i!n) 256) (=> (or (< i!n 0) (>= i!n %s)) (= (select %s i!n) 0))) :pattern ((select %s i!n)))))",
				strLen(term), strLen(term), strArr(term), strArr(term), strLen(term), strArr(term), strArr(term))
		}
	case *types.Slice:
		return fmt.Sprintf("(and (<= 0 %s) (<= 0 %s) (<= %s %s) (<= %s 1099511627776) (<= 0 %s) (=> (= %s 0) (= %s 0)))",
			slOff(term), slLen(term), slLen(term), slCap(term), slCap(term), slRef(term), slRef(term), slCap(term))
	case *types.Pointer, *types.Map, *types.Chan, *types.Signature:
		return fmt.Sprintf("(<= 0 %s)", term)
	case *types.Interface:
		return fmt.Sprintf("(and (<= 0 %s) (=> (= %s 0) (= %s 0)))", ifTyp(term), ifTyp(term), ifVal(term))
	case *types.Struct:
		var cs []string
		name := reg.structSort(u, typeHint(t))
		for i := 0; i < u.NumFields(); i++ {
			ft := u.Field(i).Type()
			if _, isStruct := ft.Underlying().(*types.Struct); isStruct {
				continue
			}
			cs = append(cs, typeInv(fmt.Sprintf("(%s_f%d %s)", name, i, term), ft))
		}
		return and(cs...)
	}
	return ""
}

// ---------------------------------------------------------------------------------------
// heaps

func (st *State) heap(name, sort string) string {
	if h, ok := st.heaps[name]; ok {
		return h
	}
	sym := fresh("H_" + name)
	st.decls = append(st.decls, fmt.Sprintf("(declare-const %s %s)", sym, sort))
	st.heaps[name] = sym
	st.hsort[name] = sort
	st.init[name] = sym
	st.heapTypingAt(name, sym, st.init["$alloc"])
	return sym
}

func (st *State) setHeap(name, sort, term string) {
	sym := fresh("H_" + name)
	st.decls = append(st.decls, fmt.Sprintf("(declare-const %s %s)", sym, sort))
	st.heap(name, sort) // make sure the initial symbol exists
	st.pc = append(st.pc, eq(sym, term))
	st.heaps[name] = sym
	st.hsort[name] = sort
	st.heapTyping(name, sym)
	if st.writes != nil {
		st.writes[name] = true
	}
}

func (st *State) havocHeap(name string) {
	if strings.HasPrefix(name, "$gvar:") {
		// a mutable ghost variable of the unit written inside a loop body / callback: arbitrary (well-typed) value at the cut.
		// Before this, ghost variables kept their pre-loop value across a cut (stale state: unsound for ghost state that a
		// loop updates and later code reads).
		g := name[len("$gvar:"):]
		if old, ok := st.gvars[g]; ok {
			v := st.freshVal("gvar_"+g, old.T)
			if ti := typeInv(v.S, old.T); ti != "" {
				st.assume(ti)
			}
			st.gvars[g] = Val{S: v.S, T: old.T}
			if st.writes != nil {
				st.writes[name] = true
			}
		}
		return
	}
	sort, ok := st.hsort[name]
	if !ok || sort == "" {
		sort, ok = heapSortOf[name]
		if !ok || sort == "" {
			return
		}
	}
	st.heap(name, sort)
	sym := fresh("H_" + name)
	st.decls = append(st.decls, fmt.Sprintf("(declare-const %s %s)", sym, sort))
	st.heaps[name] = sym
	st.heapTyping(name, sym)
	if st.writes != nil {
		st.writes[name] = true
	}
	if strings.HasPrefix(name, "C!") {
		st.cellVal = map[string]Val{}
	}
}

// heapValType remembers the Go type of the values stored in a heap (for the well-typed-heap axioms).
var heapValType = map[string]types.Type{}
var heapKeySort = map[string]string{}
var heapKeyType = map[string]types.Type{}
var heapSortOf = map[string]string{} // every heap name ever formed -> its sort

func fieldHeapName(stt types.Type, st *types.Struct, i int) (string, string) {
	sname := reg.structSort(st, typeHint(stt))
	n := fmt.Sprintf("F!%s!%s", sname, st.Field(i).Name())
	heapValType[n] = st.Field(i).Type()
	heapSortOf[n] = fmt.Sprintf("(Array Int %s)", sortOf(st.Field(i).Type()))
	return n, heapSortOf[n]
}

// heapTyping: every value stored in a heap satisfies the (quantifier-free) invariant of its Go type.
func (st *State) heapTyping(name, sym string) {
	st.heapTypingAt(name, sym, "")
}

// refBound: references stored in a heap were allocated before the heap value came into being (heap closedness).
func refBound(term string, t types.Type, frontier string) string {
	if frontier == "" {
		return ""
	}
	switch t.Underlying().(type) {
	case *types.Pointer, *types.Map, *types.Chan:
		return fmt.Sprintf("(<= %s %s)", term, frontier)
	case *types.Slice:
		return fmt.Sprintf("(<= %s %s)", slRef(term), frontier)
	}
	return ""
}

func (st *State) heapTypingAt(name, sym, frontier string) {
	if strings.HasPrefix(name, "MD!") {
		// keys present in a map are values of the key type
		if kt, ok := heapKeyType[name]; ok {
			inv := typeInvQF("k!t", kt)
			if inv != "" && inv != "true" {
				st.pc = append(st.pc, fmt.Sprintf("(forall ((r!t Int) (k!t %s)) (! (=> (select (select %s r!t) k!t) %s) :pattern ((select (select %s r!t) k!t))))", sortOf(kt), sym, inv, sym))
			}
		}
		return
	}
	t, ok := heapValType[name]
	if !ok {
		return
	}
	if _, isStruct := t.Underlying().(*types.Struct); !isStruct && !needsInv(t) {
		return
	}
	// only scalar-valued heaps: quantified invariants over datatype-valued (slice, interface, string) selects made
	// z3 diverge; values of those types get their invariant when they are loaded
	if frontier == "" {
		if f, ok := st.heaps["$alloc"]; ok {
			frontier = f
		}
	}
	if s := sortOf(t); s != "Int" {
		// slice-valued map entries: heap closedness only
		if s == "Slice" && strings.HasPrefix(name, "E!") {
			if rb := refBound("(select (select "+sym+" r!t) k!t)", t, frontier); rb != "" {
				st.pc = append(st.pc, fmt.Sprintf("(forall ((r!t Int) (k!t Int)) (! %s :pattern ((select (select %s r!t) k!t))))", rb, sym))
			}
		}
		if s == "Slice" && strings.HasPrefix(name, "MV!") {
			if rb := refBound("(select (select "+sym+" r!t) k!t)", t, frontier); rb != "" {
				st.pc = append(st.pc, fmt.Sprintf("(forall ((r!t Int) (k!t %s)) (! %s :pattern ((select (select %s r!t) k!t))))", heapKeySort[name], rb, sym))
			}
		}
		// struct-valued elements and map entries: heap closedness of their reference fields
		if stt, ok := t.Underlying().(*types.Struct); ok && (strings.HasPrefix(name, "E!") || strings.HasPrefix(name, "MV!")) {
			sn := reg.structSort(stt, typeHint(t))
			ks := "Int"
			if strings.HasPrefix(name, "MV!") {
				ks = heapKeySort[name]
			}
			elem := "(select (select " + sym + " r!t) k!t)"
			var cs []string
			for i := 0; i < stt.NumFields(); i++ {
				if rb := refBound(fmt.Sprintf("(%s_f%d %s)", sn, i, elem), stt.Field(i).Type(), frontier); rb != "" {
					cs = append(cs, rb)
				}
			}
			if len(cs) > 0 {
				st.pc = append(st.pc, fmt.Sprintf("(forall ((r!t Int) (k!t %s)) (! %s :pattern (%s)))", ks, and(cs...), elem))
			}
		}
		return
	}
	switch {
	case strings.HasPrefix(name, "MV!"):
		inv := and(typeInvQF("(select (select "+sym+" r!t) k!t)", t), refBound("(select (select "+sym+" r!t) k!t)", t, frontier))
		if inv != "" && inv != "true" {
			st.pc = append(st.pc, fmt.Sprintf("(forall ((r!t Int) (k!t %s)) (! %s :pattern ((select (select %s r!t) k!t))))", heapKeySort[name], inv, sym))
		}
	case strings.HasPrefix(name, "E!"):
		inv := and(typeInvQF("(select (select "+sym+" r!t) i!t)", t), refBound("(select (select "+sym+" r!t) i!t)", t, frontier))
		if inv != "" && inv != "true" {
			st.pc = append(st.pc, fmt.Sprintf("(forall ((r!t Int) (i!t Int)) (! %s :pattern ((select (select %s r!t) i!t))))", inv, sym))
		}
	case strings.HasPrefix(name, "F!"), strings.HasPrefix(name, "C!"):
		inv := and(typeInvQF("(select "+sym+" r!t)", t), refBound("(select "+sym+" r!t)", t, frontier))
		if inv != "" && inv != "true" {
			st.pc = append(st.pc, fmt.Sprintf("(forall ((r!t Int)) (! %s :pattern ((select %s r!t))))", inv, sym))
		}
	}
}

// tkey is a canonical key of a Go type: values of non-identical types never share memory (no unsafe in the
// repository), so heaps are split by type identity.
func tkey(t types.Type) string {
	switch u := t.(type) {
	case *types.Basic:
		switch u.Kind() {
		case types.Uint8:
			return "uint8"
		case types.Int32:
			return "int32"
		}
		return u.Name()
	case *types.Alias:
		return tkey(types.Unalias(t))
	case *types.Named:
		if u.Obj().Pkg() != nil {
			return sanitize(u.Obj().Pkg().Name() + "." + u.Obj().Name())
		}
		return u.Obj().Name()
	case *types.Pointer:
		return "p_" + tkey(u.Elem())
	case *types.Slice:
		return "s_" + tkey(u.Elem())
	case *types.Array:
		return fmt.Sprintf("a%d_%s", u.Len(), tkey(u.Elem()))
	case *types.Map:
		return "m_" + tkey(u.Key()) + "_" + tkey(u.Elem())
	case *types.Struct:
		return reg.structSort(u, "anon")
	case *types.Interface:
		if u.NumMethods() == 0 {
			return "any"
		}
	}
	return sanitize(types.TypeString(t, func(p *types.Package) string { return p.Name() }))
}

func elemHeapName(elem types.Type) (string, string) {
	s := sortOf(elem)
	n := "E!" + tkey(elem)
	heapValType[n] = elem
	heapSortOf[n] = fmt.Sprintf("(Array Int (Array Int %s))", s)
	return n, heapSortOf[n]
}

func cellHeapName(t types.Type) (string, string) {
	s := sortOf(t)
	n := "C!" + tkey(t)
	heapValType[n] = t
	heapSortOf[n] = fmt.Sprintf("(Array Int %s)", s)
	return n, heapSortOf[n]
}

func mapHeapNames(m *types.Map) (dom, val, dsort, vsort, ksort string) {
	ks, vs := sortOf(m.Key()), sortOf(m.Elem())
	k := tkey(m.Key()) + "!" + tkey(m.Elem())
	heapSortOf["MD!"+k] = fmt.Sprintf("(Array Int (Array %s Bool))", ks)
	heapSortOf["MV!"+k] = fmt.Sprintf("(Array Int (Array %s %s))", ks, vs)
	heapKeyType["MD!"+k] = m.Key()
	heapValType["MV!"+k] = m.Elem()
	heapKeySort["MV!"+k] = ks
	return "MD!" + k, "MV!" + k, fmt.Sprintf("(Array Int (Array %s Bool))", ks), fmt.Sprintf("(Array Int (Array %s %s))", ks, vs), ks
}

// allocation frontier: every fresh reference is >= the frontier and distinct from earlier ones.
func (st *State) freshRef(prefix string) string {
	r := st.freshConst(prefix, "Int")
	cur := st.heap("$alloc", "Int")
	st.assume(fmt.Sprintf("(> %s %s)", r, cur))
	st.setHeapQuiet("$alloc", "Int", r)
	if st.writes != nil {
		st.writes["$alloc"] = true // a loop that allocates moves the frontier
	}
	return r
}

func (st *State) setHeapQuiet(name, sort, term string) {
	sym := fresh("H_" + name)
	st.decls = append(st.decls, fmt.Sprintf("(declare-const %s %s)", sym, sort))
	st.pc = append(st.pc, eq(sym, term))
	st.heaps[name] = sym
	st.hsort[name] = sort
}

// assumeAllocated records that a reference value read from the pre-existing world is below the frontier.
func (st *State) assumeAllocated(term string, t types.Type) {
	switch t.Underlying().(type) {
	case *types.Pointer, *types.Map, *types.Chan:
		st.assume(fmt.Sprintf("(<= %s %s)", term, st.heap("$alloc", "Int")))
	case *types.Slice:
		st.assume(fmt.Sprintf("(<= %s %s)", slRef(term), st.heap("$alloc", "Int")))
	case *types.Interface:
		// payload may be a pointer
		st.assume(fmt.Sprintf("(<= %s %s)", ifVal(term), st.heap("$alloc", "Int")))
	case *types.Struct:
		// a struct value read from the pre-existing world (a by-value parameter, a stored struct): its reference fields too
		su := t.Underlying().(*types.Struct)
		name := reg.structSort(su, typeHint(t))
		for i := 0; i < su.NumFields(); i++ {
			ft := su.Field(i).Type()
			switch ft.Underlying().(type) {
			case *types.Pointer, *types.Map, *types.Chan, *types.Slice, *types.Interface, *types.Struct:
				st.assumeAllocated(fmt.Sprintf("(%s_f%d %s)", name, i, term), ft)
			}
		}
	}
}

// ---------------------------------------------------------------------------------------
// load / store through addresses

func (st *State) loadRoot(a *Addr) string {
	switch a.Kind {
	case ALocal:
		v, ok := a.Frame.locals[a.Alloc]
		if !ok {
			z := zeroTerm(a.RootT)
			a.Frame.locals[a.Alloc] = Val{S: z, T: a.RootT}
			return z
		}
		return v.S
	case AField:
		hn, hs := fieldHeapName(a.STT, a.ST, a.Field)
		return sel(st.heap(hn, hs), a.Base)
	case AElem:
		hn, hs := elemHeapName(a.RootT)
		return sel(sel(st.heap(hn, hs), a.Base), a.Idx)
	case ACell:
		hn, hs := cellHeapName(a.RootT)
		return sel(st.heap(hn, hs), a.Base)
	case AGlobal:
		hn := "G!" + a.Glob.Pkg.Pkg.Path() + "." + a.Glob.Name()
		return st.heap(hn, sortOf(a.RootT))
	}
	panic("bad addr")
}

func (st *State) storeRoot(a *Addr, term string, meta Val) {
	switch a.Kind {
	case ALocal:
		nv := Val{S: term, T: a.RootT}
		if len(a.Path) == 0 {
			nv.A, nv.C = meta.A, meta.C
		}
		a.Frame.locals[a.Alloc] = nv
		if st.lwrites != nil {
			st.lwrites[a.Alloc] = true
		}
	case AField:
		hn, hs := fieldHeapName(a.STT, a.ST, a.Field)
		st.setHeap(hn, hs, store(st.heap(hn, hs), a.Base, term))
	case AElem:
		hn, hs := elemHeapName(a.RootT)
		h := st.heap(hn, hs)
		st.setHeap(hn, hs, store(h, a.Base, store(sel(h, a.Base), a.Idx, term)))
	case ACell:
		hn, hs := cellHeapName(a.RootT)
		st.setHeap(hn, hs, store(st.heap(hn, hs), a.Base, term))
		if len(a.Path) == 0 && (meta.A != nil || meta.C != nil) {
			st.cellVal[a.Base] = meta
		} else {
			delete(st.cellVal, a.Base)
		}
	case AGlobal:
		hn := "G!" + a.Glob.Pkg.Pkg.Path() + "." + a.Glob.Name()
		st.setHeap(hn, sortOf(a.RootT), term)
	}
}

func projectPath(term string, path []PathStep) string {
	for _, p := range path {
		if p.AT != nil {
			term = sel(term, p.Idx)
		} else {
			name := reg.structSort(p.ST, typeHint(p.STT))
			term = fmt.Sprintf("(%s_f%d %s)", name, p.Field, term)
		}
	}
	return term
}

func updatePath(root string, path []PathStep, v string) string {
	if len(path) == 0 {
		return v
	}
	p := path[0]
	if p.AT != nil {
		inner := updatePath(sel(root, p.Idx), path[1:], v)
		return store(root, p.Idx, inner)
	}
	name := reg.structSort(p.ST, typeHint(p.STT))
	var fs []string
	for i := 0; i < p.ST.NumFields(); i++ {
		f := fmt.Sprintf("(%s_f%d %s)", name, i, root)
		if i == p.Field {
			f = updatePath(f, path[1:], v)
		}
		fs = append(fs, f)
	}
	return fmt.Sprintf("(mk_%s %s)", name, strings.Join(fs, " "))
}

func (st *State) load(a *Addr) Val {
	root := st.loadRoot(a)
	v := Val{S: projectPath(root, a.Path), T: a.T}
	if len(a.Path) == 0 {
		switch a.Kind {
		case ALocal:
			if lv, ok := a.Frame.locals[a.Alloc]; ok {
				v.A, v.C = lv.A, lv.C
			}
		case ACell:
			if cv, ok := st.cellVal[a.Base]; ok {
				v.A, v.C = cv.A, cv.C
			}
		}
	}
	if a.Kind != ALocal {
		// values coming out of a heap satisfy their type invariant
		if needsInv(a.T) {
			st.assumeTypeInv(v.S, a.T)
			st.assumeAllocated(v.S, a.T)
		}
	}
	return v
}

func needsInv(t types.Type) bool {
	switch u := t.Underlying().(type) {
	case *types.Basic:
		return u.Info()&(types.IsInteger|types.IsString) != 0
	case *types.Slice, *types.Pointer, *types.Map, *types.Chan, *types.Interface, *types.Signature:
		return true
	}
	return false
}

func (st *State) store(a *Addr, v Val) {
	root := v.S
	if len(a.Path) > 0 {
		root = updatePath(st.loadRoot(a), a.Path, v.S)
	}
	st.storeRoot(a, root, v)
}

// ---------------------------------------------------------------------------------------
// cloning (path forks)

func (f *Frame) clone(m map[*Frame]*Frame) *Frame {
	g := *f
	g.regs = make(map[ssa.Value]Val, len(f.regs))
	for k, v := range f.regs {
		g.regs[k] = v
	}
	g.locals = make(map[*ssa.Alloc]Val, len(f.locals))
	for k, v := range f.locals {
		g.locals[k] = v
	}
	g.defers = append([]deferred(nil), f.defers...)
	g.loopSeen = make(map[*ssa.BasicBlock]*loopCtx, len(f.loopSeen))
	for k, v := range f.loopSeen {
		g.loopSeen[k] = v
	}
	m[f] = &g
	return &g
}

func (st *State) clone() *State {
	n := *st
	fm := map[*Frame]*Frame{}
	n.frames = make([]*Frame, len(st.frames))
	for i, f := range st.frames {
		n.frames[i] = f.clone(fm)
	}
	// fix ALocal addresses that point into cloned frames
	fix := func(v Val) Val {
		if v.A != nil && v.A.Kind == ALocal {
			if nf, ok := fm[v.A.Frame]; ok {
				a := *v.A
				a.Frame = nf
				v.A = &a
			}
		}
		return v
	}
	for _, f := range n.frames {
		for k, v := range f.regs {
			if v.A != nil && v.A.Kind == ALocal {
				f.regs[k] = fix(v)
			}
		}
		for k, v := range f.locals {
			if v.A != nil && v.A.Kind == ALocal {
				f.locals[k] = fix(v)
			}
		}
		for i, v := range f.freeVars {
			_ = i
			_ = v
		}
	}
	n.decls = st.decls[:len(st.decls):len(st.decls)]
	n.pc = st.pc[:len(st.pc):len(st.pc)]
	n.trace = st.trace[:len(st.trace):len(st.trace)]
	n.events = st.events[:len(st.events):len(st.events)]
	n.heaps = make(map[string]string, len(st.heaps))
	for k, v := range st.heaps {
		n.heaps[k] = v
	}
	n.hsort = make(map[string]string, len(st.hsort))
	for k, v := range st.hsort {
		n.hsort[k] = v
	}
	if st.writes != nil {
		// shared on purpose: discovery collects over all paths
		n.writes = st.writes
		n.lwrites = st.lwrites
	}
	n.locks = append([]heldLock(nil), st.locks...)
	n.cellVal = make(map[string]Val, len(st.cellVal))
	for k, v := range st.cellVal {
		n.cellVal[k] = v
	}
	if st.hashEmpty != nil {
		n.hashEmpty = make(map[string]bool, len(st.hashEmpty))
		for k, v := range st.hashEmpty {
			n.hashEmpty[k] = v
		}
	}
	if st.doneChan != nil {
		n.doneChan = make(map[string]string, len(st.doneChan))
		for k, v := range st.doneChan {
			n.doneChan[k] = v
		}
	}
	if st.ctxDone != nil {
		n.ctxDone = make(map[string]bool, len(st.ctxDone))
		for k, v := range st.ctxDone {
			n.ctxDone[k] = v
		}
	}
	if st.gvars != nil {
		n.gvars = make(map[string]Val, len(st.gvars))
		for k, v := range st.gvars {
			n.gvars[k] = v
		}
	}
	n.init = make(map[string]string, len(st.init))
	for k, v := range st.init {
		n.init[k] = v
	}
	return &n
}

// ---------------------------------------------------------------------------------------
// obligations

func (st *State) oblige(kind, name, goal string, pos token.Pos) {
	if st.quiet > 0 || st.dead {
		return
	}
	if goal == "true" {
		st.eng.trivial++
		if safetyKinds[kind] || ownershipKinds[kind] || kind == "cover-pre" {
			return
		}
		// contract-level obligations (events, postconditions, invariants, ...) are recorded even when they hold
		// syntactically, so that the baseline names them and a later failure is a claimed violation
		o := &Obligation{Name: name, Kind: kind, Func: st.unit.Name, Pos: st.eng.posString(pos), Goal: goal, Status: "unsat", Solver: "syntactic"}
		st.eng.addObligation(o)
		return
	}
	o := &Obligation{
		Name:   name,
		Kind:   kind,
		Func:   st.unit.Name,
		Pos:    st.eng.posString(pos),
		Decls:  st.decls[:len(st.decls):len(st.decls)],
		PC:     st.pc[:len(st.pc):len(st.pc)],
		Goal:   goal,
		Trace:  st.trace[:len(st.trace):len(st.trace)],
		Inputs: st.inputs,
	}
	st.eng.replayInfo(st.unit, o)
	st.eng.addObligation(o)
}

// check emits an obligation and then assumes the goal (so later obligations on the path are independent).
func (st *State) check(kind, name, goal string, pos token.Pos) {
	st.oblige(kind, name, goal, pos)
	st.assume(goal)
}
