package main

// Assumed contracts for the libraries used by package net (TLS, X.509, PEM, ECDSA, ASN.1) and matching contract
// built-ins. Everything here is uninterpreted and deterministic: the library functions are functions of the
// contents of their arguments.

import (
	"fmt"
	"go/token"
	"go/types"
	"strings"

	"golang.org/x/tools/go/ssa"
)

// deepTerm abstracts a value into a term that depends on the contents of byte slices (not on their headers).
func (e *Engine) deepTerm(st *State, v Val) (term string, sort string) {
	switch t := v.T.Underlying().(type) {
	case *types.Slice:
		if b, ok := t.Elem().Underlying().(*types.Basic); ok && b.Kind() == types.Uint8 {
			return e.contentOf(st, v), "Str"
		}
		// other slices: abstracted by length and the row they live in (imprecise but deterministic)
		hn, hs := elemHeapName(t.Elem())
		reg.declareFun("lib!seq!"+tkey(t.Elem()), []string{fmt.Sprintf("(Array Int %s)", sortOf(t.Elem())), "Int", "Int"}, "Int")
		return fmt.Sprintf("(lib!seq!%s (select %s %s) %s %s)", tkey(t.Elem()), st.heap(hn, hs), slRef(v.S), slOff(v.S), slLen(v.S)), "Int"
	case *types.Struct:
		var args, sorts []string
		name := reg.structSort(t, typeHint(v.T))
		for i := 0; i < t.NumFields(); i++ {
			fv := Val{S: fmt.Sprintf("(%s_f%d %s)", name, i, v.S), T: t.Field(i).Type()}
			a, s := e.deepTerm(st, fv)
			args = append(args, a)
			sorts = append(sorts, s)
		}
		fn := "lib!deep!" + name
		reg.declareFun(fn, sorts, "Int")
		if len(args) == 0 {
			return fn, "Int"
		}
		return "(" + fn + " " + strings.Join(args, " ") + ")", "Int"
	}
	return v.S, sortOf(v.T)
}

func (e *Engine) asn1Of(st *State, v Val) string {
	d, s := e.deepTerm(st, v)
	fn := "lib!asn1!" + sanitize(s)
	reg.declareFun(fn, []string{s}, "Str")
	return fmt.Sprintf("(%s %s)", fn, d)
}

// freshBytes returns a fresh non-nil byte slice whose contents (as a string) equal the given Str term.
func (e *Engine) freshBytes(st *State, t types.Type, content string, prefix string) Val {
	et := t.Underlying().(*types.Slice).Elem()
	hn, hs := elemHeapName(et)
	r := st.freshRef(prefix)
	arr := st.freshConst(prefix+"arr", "(Array Int Int)")
	ln := st.freshConst(prefix+"len", "Int")
	st.assume(fmt.Sprintf("(and (<= 0 %s) (<= %s 1099511627776))", ln, ln))
	st.assume(eq(ln, strLen(content)))
	cfn := "content!" + tkey(et)
	reg.declareFun(cfn, []string{"(Array Int Int)", "Int", "Int"}, "Str")
	st.assume(eq(fmt.Sprintf("(%s %s 0 %s)", cfn, arr, ln), content))
	st.assume(fmt.Sprintf("(forall ((i Int)) (! (and (<= 0 (select %s i)) (< (select %s i) 256)) :pattern ((select %s i))))", arr, arr, arr))
	st.setHeap(hn, hs, store(st.heap(hn, hs), r, arr))
	return Val{S: mkSlice(r, "0", ln, ln), T: t}
}

func structValOfArg(e *Engine, st *State, fr *Frame, ins ssa.Instruction, arg Val) (Val, bool) {
	if mi := e.findMakeInterface(fr, ins); mi != nil {
		v := e.val(st, fr, mi.X)
		if p, ok := v.T.Underlying().(*types.Pointer); ok {
			if _, isStruct := p.Elem().Underlying().(*types.Struct); isStruct {
				lv := e.loadPtr(st, v)
				lv.T = p.Elem()
				return lv, true
			}
		}
		return v, true
	}
	return Val{}, false
}

func init() {
	ifaceModels["net.Conn.RemoteAddr"] = func(e *Engine, st *State, fr *Frame, recv Val, args []Val, resT types.Type, pos token.Pos, ins ssa.Instruction) Val {
		used(e, "net.Conn.RemoteAddr / net.Addr.String: total, RemoteAddr returns a non-nil address")
		v := e.freshResult(st, "addr", resT)
		st.assume(not(eq(ifTyp(v.S), "0")))
		return v
	}
	ifaceModels["net.Addr.String"] = func(e *Engine, st *State, fr *Frame, recv Val, args []Val, resT types.Type, pos token.Pos, ins ssa.Instruction) Val {
		return e.freshResult(st, "addrstr", resT)
	}
	libModels["encoding/asn1.Marshal"] = func(e *Engine, st *State, fr *Frame, args []Val, resT types.Type, pos token.Pos, ins ssa.Instruction) Val {
		used(e, "encoding/asn1.Marshal: may fail (e.g. a string field that is not valid UTF-8); on success the bytes are a deterministic function of the value (byte-slice fields by content)")
		errT := resTypeAt(resT, 1)
		er := st.freshVal("asn1err", errT)
		sv, ok := structValOfArg(e, st, fr, ins, args[0])
		if !ok {
			b := e.freshResult(st, "asn1", resTypeAt(resT, 0))
			return tupleOf(resT, b, er)
		}
		if asn1Total(sv.T) {
			// structs of byte strings, integers and booleans (no strings, times, object identifiers, pointers): no error path
			used(e, "encoding/asn1.Marshal of a struct whose fields are (slices of) byte slices, integers and booleans: cannot fail")
			st.assume(eq(ifTyp(er.S), "0"))
		}
		content := e.asn1Of(st, sv)
		b := e.freshBytes(st, resTypeAt(resT, 0), content, "asn1")
		return tupleOf(resT, b, er)
	}
	libModels["encoding/asn1.Unmarshal"] = func(e *Engine, st *State, fr *Frame, args []Val, resT types.Type, pos token.Pos, ins ssa.Instruction) Val {
		used(e, "encoding/asn1.Unmarshal: total; writes only *val (arbitrary well-typed content); on success the bytes are the encoding of the decoded value followed by rest")
		rest := e.freshResult(st, "asn1rest", resTypeAt(resT, 0))
		er := st.freshVal("asn1err", resTypeAt(resT, 1))
		// find the destination: pointer boxed in an interface
		if mi := e.findMakeInterface(fr, ins); mi != nil {
			p := e.val(st, fr, mi.X)
			if pt, ok := p.T.Underlying().(*types.Pointer); ok {
				if s, isStruct := pt.Elem().Underlying().(*types.Struct); isStruct {
					nv := st.freshVal("unmarshalled", pt.Elem())
					e.havocStructContents(st, nv, s, pt.Elem())
					e.storePtr(st, p, nv)
				} else {
					e.havocReachable(st, p)
				}
			}
		}
		return tupleOf(resT, rest, er)
	}
	libModels["encoding/pem.Decode"] = func(e *Engine, st *State, fr *Frame, args []Val, resT types.Type, pos token.Pos, ins ssa.Instruction) Val {
		used(e, "encoding/pem.Decode: total; the block (possibly nil) and its Bytes are functions of the input contents")
		c := e.contentOf(st, args[0])
		reg.declareFun("lib!pemOK", []string{"Str"}, "Bool")
		reg.declareFun("lib!pemBytes", []string{"Str"}, "Str")
		bt := resTypeAt(resT, 0) // *pem.Block
		blk := st.freshRef("pemblock")
		pt := bt.Underlying().(*types.Pointer)
		s := pt.Elem().Underlying().(*types.Struct)
		for i := 0; i < s.NumFields(); i++ {
			hn, hs := fieldHeapName(pt.Elem(), s, i)
			f := s.Field(i)
			var fv string
			if f.Name() == "Bytes" {
				fv = e.freshBytes(st, f.Type(), "(lib!pemBytes "+c+")", "pembytes").S
			} else {
				fv = st.freshVal("pem_"+f.Name(), f.Type()).S
			}
			st.setHeap(hn, hs, store(st.heap(hn, hs), blk, fv))
		}
		res := ite("(lib!pemOK "+c+")", blk, "0")
		rest := e.freshResult(st, "pemrest", resTypeAt(resT, 1))
		return tupleOf(resT, Val{S: res, T: bt}, rest)
	}
	libModels["crypto/x509.ParseCertificate"] = func(e *Engine, st *State, fr *Frame, args []Val, resT types.Type, pos token.Pos, ins ssa.Instruction) Val {
		used(e, "crypto/x509.ParseCertificate: total; err == nil iff the certificate is non-nil; certificate and its PublicKey are functions of the DER contents")
		c := e.contentOf(st, args[0])
		reg.declareFun("lib!certOK", []string{"Str"}, "Bool")
		reg.declareFun("lib!certKey", []string{"Str"}, "Iface")
		ct := resTypeAt(resT, 0)
		cert := st.freshRef("cert")
		pt := ct.Underlying().(*types.Pointer)
		s := pt.Elem().Underlying().(*types.Struct)
		if i := findField(s, "PublicKey"); i >= 0 {
			hn, hs := fieldHeapName(pt.Elem(), s, i)
			key := "(lib!certKey " + c + ")"
			st.assume(typeInv(key, s.Field(i).Type()))
			st.setHeap(hn, hs, store(st.heap(hn, hs), cert, key))
		}
		ok := "(lib!certOK " + c + ")"
		er := st.freshVal("certerr", resTypeAt(resT, 1))
		st.assume(eq(eq(ifTyp(er.S), "0"), ok))
		return tupleOf(resT, Val{S: ite(ok, cert, "0"), T: ct}, er)
	}
	libModels["crypto/ecdsa.VerifyASN1"] = func(e *Engine, st *State, fr *Frame, args []Val, resT types.Type, pos token.Pos, ins ssa.Instruction) Val {
		used(e, "crypto/ecdsa.VerifyASN1: total, deterministic predicate of (key, hash contents, signature contents)")
		reg.declareFun("lib!ecdsaVerify", []string{"Int", "Str", "Str"}, "Bool")
		return Val{S: fmt.Sprintf("(lib!ecdsaVerify %s %s %s)", args[0].S, e.contentOf(st, args[1]), e.contentOf(st, args[2])), T: tBool}
	}
	libModels["(*crypto/tls.Conn).ConnectionState"] = func(e *Engine, st *State, fr *Frame, args []Val, resT types.Type, pos token.Pos, ins ssa.Instruction) Val {
		used(e, "crypto/tls.Conn.ConnectionState / ExportKeyingMaterial: total; the exported keying material is a function of (connection, label, context, length): this connection's RFC 5705 value")
		v := st.freshVal("connstate", resT)
		d, _ := e.deepTermShallow(v)
		reg.declareFun("lib!connOf", []string{sortOf(resT)}, "Int")
		_ = d
		st.assume(eq("(lib!connOf "+v.S+")", args[0].S))
		return v
	}
	libModels["(*crypto/tls.ConnectionState).ExportKeyingMaterial"] = func(e *Engine, st *State, fr *Frame, args []Val, resT types.Type, pos token.Pos, ins ssa.Instruction) Val {
		used(e, "crypto/tls.Conn.ConnectionState / ExportKeyingMaterial: total; the exported keying material is a function of (connection, label, context, length): this connection's RFC 5705 value")
		cs := e.loadPtr(st, args[0])
		reg.declareFun("lib!connOf", []string{sortOf(deref(args[0].T))}, "Int")
		reg.declareFun("lib!exporter", []string{"Int", "Str", "Str", "Int"}, "Str")
		content := fmt.Sprintf("(lib!exporter (lib!connOf %s) %s %s %s)", cs.S, args[1].S, e.contentOf(st, args[2]), args[3].S)
		b := e.freshBytes(st, resTypeAt(resT, 0), content, "ekm")
		e.assumptions["tls.ConnectionState.ExportKeyingMaterial does not fail on an established TLS 1.3 connection (MinVersion TLS 1.3, renegotiation disabled in baseTLSConfig)"] = true
		return tupleOf(resT, b, Val{S: nilIface, T: resTypeAt(resT, 1)})
	}
	for _, n := range []string{"(*crypto/tls.Conn).Close", "crypto/tls.Dial", "(*crypto/tls.Config).Clone", "crypto/tls.X509KeyPair", "crypto/tls.Listen"} {
		n := n
		libModels[n] = func(e *Engine, st *State, fr *Frame, args []Val, resT types.Type, pos token.Pos, ins ssa.Instruction) Val {
			used(e, n+": total, result unconstrained, no effect on verified state")
			return e.freshResult(st, "tls", resT)
		}
	}
}

func (e *Engine) deepTermShallow(v Val) (string, string) { return v.S, sortOf(v.T) }

// havocStructContents gives every byte-slice / string field of a freshly decoded struct fresh contents.
func (e *Engine) havocStructContents(st *State, v Val, s *types.Struct, stt types.Type) {
	name := reg.structSort(s, typeHint(stt))
	for i := 0; i < s.NumFields(); i++ {
		ft := s.Field(i).Type()
		fv := fmt.Sprintf("(%s_f%d %s)", name, i, v.S)
		st.assumeAllocated(fv, ft)
	}
}

// contract built-ins that name the same uninterpreted functions
func (e *Engine) netBuiltin(env *Env, name string, ex *SExpr) (Val, bool) {
	if v, ok := e.algBuiltin(env, name, ex); ok {
		return v, true
	}
	if env.st == nil {
		return Val{}, false
	}
	arg := func(i int) Val { return env.eval(ex.Args[i]) }
	st := env.st
	str := func(v Val) string { return env.content(v) }
	if env.quant > 0 && (name == "concat" || name == "asn1") {
		return Val{}, false
	}
	switch name {
	case "beint":
		// beint(b): the non-negative integer with big-endian representation b (what big.Int.SetBytes computes)
		reg.declareFun("lib!beint", []string{"Str"}, "Int")
		return Val{S: "(lib!beint " + str(arg(0)) + ")", T: tInt}, true
	case "bigval":
		// bigval(x): the integer value of a *big.Int
		return Val{S: bigVal(env.st, arg(0).S), T: tInt}, true
	case "inAt", "outAt":
		// inAt(conn, i) / outAt(conn, i): byte i of the ghost stream read from / written to the connection
		hn := "L!wire!" + name[:len(name)-2] + "arr"
		heapSortOf[hn] = "(Array Int (Array Int Int))"
		return Val{S: sel(sel(env.heap(hn, "(Array Int (Array Int Int))"), streamKey(arg(0))), arg(1).S), T: types.Typ[types.Uint8]}, true
	case "inPos", "outPos":
		// inPos(conn) / outPos(conn): number of bytes consumed from / written to the connection so far
		hn := "L!wire!" + name[:len(name)-3] + "pos"
		heapSortOf[hn] = "(Array Int Int)"
		pv := sel(env.heap(hn, "(Array Int Int)"), streamKey(arg(0)))
		if env.quant == 0 && env.st != nil {
			// a connection carries fewer than 2^62 bytes (so that stream positions are machine integers)
			env.st.assume(fmt.Sprintf("(and (<= 0 %s) (< %s 4611686018427387904))", pv, pv))
		}
		return Val{S: pv, T: tInt}, true
	case "tlsExporter":
		// tlsExporter(conn, label, context, n): this connection's exported keying material
		conn := arg(0)
		reg.declareFun("lib!exporter", []string{"Int", "Str", "Str", "Int"}, "Str")
		return Val{S: fmt.Sprintf("(lib!exporter %s %s %s %s)", ifVal(conn.S), str(arg(1)), str(arg(2)), arg(3).S), T: tString}, true
	case "ecdsaVerify":
		reg.declareFun("lib!ecdsaVerify", []string{"Int", "Str", "Str"}, "Bool")
		return Val{S: fmt.Sprintf("(lib!ecdsaVerify %s %s %s)", arg(0).S, str(arg(1)), str(arg(2))), T: tBool}, true
	case "certKey":
		reg.declareFun("lib!certKey", []string{"Str"}, "Iface")
		return Val{S: "(lib!certKey " + str(arg(0)) + ")", T: types.NewInterfaceType(nil, nil)}, true
	case "certOK":
		reg.declareFun("lib!certOK", []string{"Str"}, "Bool")
		return Val{S: "(lib!certOK " + str(arg(0)) + ")", T: tBool}, true
	case "pemOK":
		reg.declareFun("lib!pemOK", []string{"Str"}, "Bool")
		return Val{S: "(lib!pemOK " + str(arg(0)) + ")", T: tBool}, true
	case "pemBytes":
		reg.declareFun("lib!pemBytes", []string{"Str"}, "Str")
		return Val{S: "(lib!pemBytes " + str(arg(0)) + ")", T: tString}, true
	case "asn1":
		return Val{S: e.asn1Of(st, arg(0)), T: tString}, true
	case "hex":
		reg.declareFun("lib!hex", []string{"Str"}, "Str")
		return Val{S: "(lib!hex " + str(arg(0)) + ")", T: tString}, true
	case "concat":
		a, b := str(arg(0)), str(arg(1))
		n := st.freshConst("concat", "Str")
		reg.declareFun("lib!concat", []string{"Str", "Str"}, "Str")
		st.assume(eq(n, fmt.Sprintf("(lib!concat %s %s)", a, b)))
		la, lb := strLen(a), strLen(b)
		st.assume(eq(strLen(n), add(la, lb)))
		st.assume(fmt.Sprintf("(forall ((i Int)) (! (= (select %s i) (ite (and (<= 0 i) (< i %s)) (select %s i) (ite (and (<= %s i) (< i (+ %s %s))) (select %s (- i %s)) 0))) :pattern ((select %s i))))",
			strArr(n), la, strArr(a), la, la, lb, strArr(b), la, strArr(n)))
		return Val{S: n, T: tString}, true
	}
	return Val{}, false
}

// asn1Total: encoding/asn1.Marshal has no failing case for values of this type.
func asn1Total(t types.Type) bool {
	switch u := t.Underlying().(type) {
	case *types.Basic:
		return u.Info()&(types.IsInteger|types.IsBoolean) != 0
	case *types.Slice:
		return asn1Total(u.Elem())
	case *types.Struct:
		for i := 0; i < u.NumFields(); i++ {
			if !asn1Total(u.Field(i).Type()) {
				return false
			}
		}
		return true
	}
	return false
}

// ---------------------------------------------------------------------------------------
// ghost byte streams of connections (C17): an unbounded array of bytes and a cursor per direction. The bytes a peer will
// send are arbitrary but fixed (reading only moves the cursor); writing stores bytes at the cursor and moves it.

func streamKey(conn Val) string {
	if sortOf(conn.T) == "Iface" {
		return ifVal(conn.S)
	}
	return conn.S
}

func (e *Engine) streamHeaps(st *State, dir string) (arr, pos string) {
	an, pn := "L!wire!"+dir+"arr", "L!wire!"+dir+"pos"
	heapSortOf[an] = "(Array Int (Array Int Int))"
	heapSortOf[pn] = "(Array Int Int)"
	return an, pn
}

// streamRead: a successful ReadFull(conn, buf) delivers the next len(buf) bytes of the incoming stream.
func (e *Engine) streamRead(st *State, fr *Frame, reader, buf Val, n, er Val) {
	an, pn := e.streamHeaps(st, "in")
	k := streamKey(reader)
	arr := sel(st.heap(an, heapSortOf[an]), k)
	ph := st.heap(pn, heapSortOf[pn])
	p := sel(ph, k)
	st.assume(fmt.Sprintf("(>= %s 0)", p))
	et := buf.T.Underlying().(*types.Slice).Elem()
	hn, hs := elemHeapName(et)
	row := sel(st.heap(hn, hs), slRef(buf.S))
	ok := eq(ifTyp(er.S), "0")
	st.assume(implies(ok, fmt.Sprintf("(forall ((i!w Int)) (! (=> (and (<= 0 i!w) (< i!w %s)) (= (select %s %s) (select %s (+ %s i!w)))) :pattern ((select %s %s))))",
		slLen(buf.S), row, ix(slOff(buf.S), "i!w"), arr, p, row, ix(slOff(buf.S), "i!w"))))
	st.assume(fmt.Sprintf("(forall ((i!w Int)) (! (and (<= 0 (select %s i!w)) (< (select %s i!w) 256)) :pattern ((select %s i!w))))", arr, arr, arr))
	np := st.freshConst("inpos", "Int")
	st.assume(fmt.Sprintf("(and (>= %s %s) (<= %s (+ %s %s)))", np, p, np, p, slLen(buf.S)))
	st.assume(implies(ok, eq(np, fmt.Sprintf("(+ %s %s)", p, slLen(buf.S)))))
	st.setHeap(pn, heapSortOf[pn], store(ph, k, np))
	e.assumptions["ghost byte streams: the bytes a connection will deliver are arbitrary but fixed; ReadFull consumes them in order; a successful Write appends the buffer to the outgoing stream (partial writes before an error leave the stream in an unspecified state)"] = true
}

// streamWrite: conn.Write(b): on success the bytes of b are appended to the outgoing stream.
func (e *Engine) streamWrite(st *State, conn, b Val, resT types.Type) Val {
	an, pn := e.streamHeaps(st, "out")
	k := streamKey(conn)
	ah := st.heap(an, heapSortOf[an])
	ph := st.heap(pn, heapSortOf[pn])
	arr, p := sel(ah, k), sel(ph, k)
	st.assume(fmt.Sprintf("(>= %s 0)", p))
	n := st.freshVal("wroten", tInt)
	er := st.freshVal("writeerr", resTypeAt(resT, 1))
	ok := eq(ifTyp(er.S), "0")
	st.assume(fmt.Sprintf("(and (<= 0 %s) (<= %s %s))", n.S, n.S, slLen(b.S)))
	st.assume(implies(ok, eq(n.S, slLen(b.S))))
	et := b.T.Underlying().(*types.Slice).Elem()
	hn, hs := elemHeapName(et)
	row := sel(st.heap(hn, hs), slRef(b.S))
	narr := st.freshConst("outarr", "(Array Int Int)")
	st.assume(fmt.Sprintf("(forall ((i!w Int)) (! (=> (< i!w %s) (= (select %s i!w) (select %s i!w))) :pattern ((select %s i!w))))", p, narr, arr, narr))
	st.assume(implies(ok, fmt.Sprintf("(forall ((j!w Int)) (! (=> (and (<= %s j!w) (< j!w (+ %s %s))) (= (select %s j!w) (select %s %s))) :pattern ((select %s j!w))))",
		p, p, slLen(b.S), narr, row, ix(slOff(b.S), "(- j!w "+p+")"), narr)))
	np := st.freshConst("outpos", "Int")
	st.assume(fmt.Sprintf("(>= %s %s)", np, p))
	st.assume(implies(ok, eq(np, fmt.Sprintf("(+ %s %s)", p, slLen(b.S)))))
	st.setHeap(an, heapSortOf[an], store(ah, k, narr))
	st.setHeap(pn, heapSortOf[pn], store(ph, k, np))
	e.assumptions["ghost byte streams: the bytes a connection will deliver are arbitrary but fixed; ReadFull consumes them in order; a successful Write appends the buffer to the outgoing stream (partial writes before an error leave the stream in an unspecified state)"] = true
	return tupleOf(resT, n, er)
}

func registerWireHeaps() {
	for _, n := range []string{"in", "out"} {
		heapSortOf["L!wire!"+n+"arr"] = "(Array Int (Array Int Int))"
		heapSortOf["L!wire!"+n+"pos"] = "(Array Int Int)"
	}
}

func init() {
	registerWireHeaps()
	libModels["(*crypto/tls.Conn).Write"] = func(e *Engine, st *State, fr *Frame, args []Val, resT types.Type, pos token.Pos, ins ssa.Instruction) Val {
		used(e, "crypto/tls.Conn.Write: total; on success the whole buffer is appended to the connection's outgoing ghost stream")
		return e.streamWrite(st, args[0], args[1], resT)
	}
	ifaceModels["net.Conn.Write"] = func(e *Engine, st *State, fr *Frame, recv Val, args []Val, resT types.Type, pos token.Pos, ins ssa.Instruction) Val {
		used(e, "net.Conn.Write: total; on success the whole buffer is appended to the connection's outgoing ghost stream")
		return e.streamWrite(st, recv, args[0], resT)
	}
}
