package main

// SMT layer: sorts of Go types, datatype registry, term builders.

import (
	"fmt"
	"go/constant"
	"go/types"
	"sort"
	"strings"
)

// Registry of SMT declarations that depend on Go types (struct datatypes, box functions).
// It is global for one engine run; declarations are emitted in registration order in every query.
type Registry struct {
	structName map[string]string // types.Struct identity string -> datatype name
	structOf   map[string]*types.Struct
	order      []string // declaration lines in order
	boxes      map[string]bool
	cards      map[string]bool
	funs       map[string]bool
	strlits    map[string]string
	nstruct    int
}

var reg = &Registry{structName: map[string]string{}, structOf: map[string]*types.Struct{}, boxes: map[string]bool{}, cards: map[string]bool{}, funs: map[string]bool{}, strlits: map[string]string{}}

const preamble = `(set-option :produce-models true)
(set-logic ALL)
(declare-datatype Str ((mk-str (s.len Int) (s.arr (Array Int Int)))))
(declare-datatype Slice ((mk-slice (sl.ref Int) (sl.off Int) (sl.len Int) (sl.cap Int))))
(declare-datatype Iface ((mk-iface (i.typ Int) (i.val Int))))
(declare-fun wrapshl (Int Int Int) Int)
(declare-fun wrapshr (Int Int) Int)
(declare-fun bitand (Int Int) Int)
(declare-fun bitor (Int Int) Int)
(declare-fun bitxor (Int Int) Int)
(declare-fun pow2 (Int) Int)
`

// element index of a slice: idx(off, k) = off + k. In quantified queries it is an uninterpreted function with a
// defining axiom, so that contract quantifiers can be triggered on it (z3 normalises arithmetic terms, which breaks
// triggers that contain "+"); in quantifier-free queries it is simply defined.
const idxAxiom = `(declare-fun idx (Int Int) Int)
(assert (forall ((o!x Int) (k!x Int)) (! (= (idx o!x k!x) (+ o!x k!x)) :pattern ((idx o!x k!x)))))
`
const idxDef = `(define-fun idx ((o!x Int) (k!x Int)) Int (+ o!x k!x))
`

func ix(off, k string) string {
	if off == "0" {
		return k
	}
	if k == "0" {
		return off
	}
	return "(idx " + off + " " + k + ")"
}

func (r *Registry) decl(line string) {
	r.order = append(r.order, line)
}

// declareFun declares an uninterpreted function once.
func (r *Registry) declareFun(name string, args []string, res string) {
	if r.funs[name] {
		return
	}
	r.funs[name] = true
	r.decl(fmt.Sprintf("(declare-fun %s (%s) %s)", name, strings.Join(args, " "), res))
}

func structKey(s *types.Struct) string {
	var b strings.Builder
	b.WriteString("struct{")
	for i := 0; i < s.NumFields(); i++ {
		f := s.Field(i)
		b.WriteString(f.Name())
		b.WriteString(" ")
		b.WriteString(types.TypeString(f.Type(), nil))
		b.WriteString(";")
	}
	b.WriteString("}")
	return b.String()
}

func sanitize(s string) string {
	var b strings.Builder
	for _, c := range s {
		switch {
		case c >= 'a' && c <= 'z', c >= 'A' && c <= 'Z', c >= '0' && c <= '9', c == '_':
			b.WriteRune(c)
		case c == '.' || c == '/':
			b.WriteRune('_')
		default:
			fmt.Fprintf(&b, "u%x", c)
		}
	}
	return b.String()
}

// structSort returns the datatype name of a struct type, declaring it on first use.
func (r *Registry) structSort(s *types.Struct, hint string) string {
	k := structKey(s)
	if n, ok := r.structName[k]; ok {
		return n
	}
	r.nstruct++
	if s.NumFields() == 0 {
		hint = "empty" // all empty structs share one sort: do not name it after whichever type was seen first
	}
	name := fmt.Sprintf("S%d_%s", r.nstruct, sanitize(hint))
	r.structName[k] = name
	r.structOf[name] = s
	// field sorts first (may declare other structs)
	var fs []string
	for i := 0; i < s.NumFields(); i++ {
		fs = append(fs, fmt.Sprintf("(%s_f%d %s)", name, i, sortOf(s.Field(i).Type())))
	}
	r.decl(fmt.Sprintf("(declare-datatype %s ((mk_%s %s)))", name, name, strings.Join(fs, " ")))
	return name
}

func typeHint(t types.Type) string {
	if n, ok := t.(*types.Named); ok {
		return n.Obj().Name()
	}
	if a, ok := t.(*types.Alias); ok {
		return a.Obj().Name()
	}
	return "anon"
}

// sortOf maps a Go type to its SMT sort.
func sortOf(t types.Type) string {
	if s, ok := algSortOf(t); ok {
		return s
	}
	if g, ok := t.(*ghostMapType); ok {
		es := ""
		if inner, ok := g.elem.(*ghostMapType); ok {
			es = sortOf(inner)
		} else {
			es = sortOf(g.elem)
		}
		return fmt.Sprintf("(Array %s %s)", sortOf(g.key), es)
	}
	hint := typeHint(t)
	switch u := t.Underlying().(type) {
	case *types.Basic:
		switch {
		case u.Info()&types.IsBoolean != 0:
			return "Bool"
		case u.Info()&types.IsInteger != 0:
			return "Int"
		case u.Info()&types.IsString != 0:
			return "Str"
		case u.Info()&types.IsFloat != 0:
			return "Real"
		case u.Kind() == types.UnsafePointer:
			return "Int"
		case u.Kind() == types.UntypedNil:
			return "Int"
		}
		return "Int"
	case *types.Pointer, *types.Map, *types.Chan, *types.Signature:
		return "Int"
	case *types.Slice:
		return "Slice"
	case *types.Interface:
		return "Iface"
	case *types.Struct:
		return reg.structSort(u, hint)
	case *types.Array:
		return fmt.Sprintf("(Array Int %s)", sortOf(u.Elem()))
	case *types.Tuple:
		return "Int"
	}
	return "Int"
}

func sortKey(sort string) string { return sanitize(sort) }

// defaultValue returns the SMT term of the zero value of a Go type.
func zeroTerm(t types.Type) string {
	switch u := t.Underlying().(type) {
	case *types.Basic:
		switch {
		case u.Info()&types.IsBoolean != 0:
			return "false"
		case u.Info()&types.IsString != 0:
			return emptyStr
		case u.Info()&types.IsFloat != 0:
			return "0.0"
		}
		return "0"
	case *types.Slice:
		return nilSlice
	case *types.Interface:
		return nilIface
	case *types.Struct:
		name := reg.structSort(u, typeHint(t))
		if u.NumFields() == 0 {
			return "mk_" + name
		}
		var fs []string
		for i := 0; i < u.NumFields(); i++ {
			fs = append(fs, zeroTerm(u.Field(i).Type()))
		}
		return fmt.Sprintf("(mk_%s %s)", name, strings.Join(fs, " "))
	case *types.Array:
		return fmt.Sprintf("((as const %s) %s)", sortOf(t), zeroTerm(u.Elem()))
	}
	return "0"
}

const (
	emptyStr = "(mk-str 0 ((as const (Array Int Int)) 0))"
	nilSlice = "(mk-slice 0 0 0 0)"
	nilIface = "(mk-iface 0 0)"
)

// strLit returns the Str term for a Go string literal (exact contents).
func strLit(s string) string {
	if s == "" {
		return emptyStr
	}
	arr := "((as const (Array Int Int)) 0)"
	b := []byte(s)
	if len(b) > 64 {
		// long literals (log formats): opaque but with the right length; distinct literals get distinct symbols
		name, ok := reg.strlits[s]
		if !ok {
			name = fmt.Sprintf("strlit!%d", len(reg.strlits))
			reg.strlits[s] = name
			reg.decl(fmt.Sprintf("(declare-const %s (Array Int Int))", name))
		}
		return fmt.Sprintf("(mk-str %d %s)", len(b), name)
	}
	for i, c := range b {
		arr = fmt.Sprintf("(store %s %d %d)", arr, i, c)
	}
	return fmt.Sprintf("(mk-str %d %s)", len(b), arr)
}

func constTerm(c constant.Value, t types.Type) string {
	if c == nil { // nil constant
		return zeroTerm(t)
	}
	switch c.Kind() {
	case constant.Bool:
		if constant.BoolVal(c) {
			return "true"
		}
		return "false"
	case constant.String:
		return strLit(constant.StringVal(c))
	case constant.Int:
		if b, ok := t.Underlying().(*types.Basic); ok && b.Info()&types.IsFloat != 0 {
			return smtInt(c.ExactString()) + ".0"
		}
		return smtInt(c.ExactString())
	case constant.Float:
		f, _ := constant.Float64Val(c)
		if b, ok := t.Underlying().(*types.Basic); ok && b.Info()&types.IsInteger != 0 {
			return smtInt(fmt.Sprintf("%d", int64(f)))
		}
		s := fmt.Sprintf("%f", f)
		if strings.HasPrefix(s, "-") {
			return "(- " + s[1:] + ")"
		}
		return s
	}
	return "0"
}

func smtInt(s string) string {
	if strings.HasPrefix(s, "-") {
		return "(- " + s[1:] + ")"
	}
	return s
}

func itoa(i int64) string { return smtInt(fmt.Sprintf("%d", i)) }

// integer type info
func intInfo(t types.Type) (bits int, signed bool, ok bool) {
	b, isB := t.Underlying().(*types.Basic)
	if !isB || b.Info()&types.IsInteger == 0 {
		return 0, false, false
	}
	switch b.Kind() {
	case types.Int8:
		return 8, true, true
	case types.Int16:
		return 16, true, true
	case types.Int32:
		return 32, true, true
	case types.Int64, types.Int, types.UntypedInt, types.UntypedRune:
		return 64, true, true
	case types.Uint8:
		return 8, false, true
	case types.Uint16:
		return 16, false, true
	case types.Uint32:
		return 32, false, true
	case types.Uint64, types.Uint, types.Uintptr:
		return 64, false, true
	}
	return 64, true, true
}

var pow2tab = map[int]string{8: "256", 16: "65536", 32: "4294967296", 64: "18446744073709551616"}
var halftab = map[int]string{8: "128", 16: "32768", 32: "2147483648", 64: "9223372036854775808"}

// wrap reduces a mathematical integer term into the range of Go type t (exact two's complement).
// 64-bit types are only wrapped when force is set (subtraction on unsigned); see DESIGN 2.5.
func wrap(term string, t types.Type, force bool) string {
	bits, signed, ok := intInfo(t)
	if !ok {
		return term
	}
	if bits == 64 && !force {
		return term
	}
	if signed {
		return fmt.Sprintf("(- (mod (+ %s %s) %s) %s)", term, halftab[bits], pow2tab[bits], halftab[bits])
	}
	return fmt.Sprintf("(mod %s %s)", term, pow2tab[bits])
}

// rangePred returns the SMT predicate "term is a value of integer type t" (or "" if none).
func rangePred(term string, t types.Type) string {
	bits, signed, ok := intInfo(t)
	if !ok {
		return ""
	}
	if signed {
		return fmt.Sprintf("(and (<= (- %s) %s) (< %s %s))", halftab[bits], term, term, halftab[bits])
	}
	return fmt.Sprintf("(and (<= 0 %s) (< %s %s))", term, term, pow2tab[bits])
}

func and(xs ...string) string {
	var ys []string
	for _, x := range xs {
		if x == "" || x == "true" {
			continue
		}
		if x == "false" {
			return "false"
		}
		ys = append(ys, x)
	}
	switch len(ys) {
	case 0:
		return "true"
	case 1:
		return ys[0]
	}
	return "(and " + strings.Join(ys, " ") + ")"
}

func or(xs ...string) string {
	var ys []string
	for _, x := range xs {
		if x == "" || x == "false" {
			continue
		}
		if x == "true" {
			return "true"
		}
		ys = append(ys, x)
	}
	switch len(ys) {
	case 0:
		return "false"
	case 1:
		return ys[0]
	}
	return "(or " + strings.Join(ys, " ") + ")"
}

func not(x string) string {
	switch x {
	case "true":
		return "false"
	case "false":
		return "true"
	}
	if strings.HasPrefix(x, "(not ") && balanced(x[5:len(x)-1]) {
		return x[5 : len(x)-1]
	}
	return "(not " + x + ")"
}

func balanced(s string) bool {
	d := 0
	for _, c := range s {
		if c == '(' {
			d++
		} else if c == ')' {
			d--
			if d < 0 {
				return false
			}
		}
	}
	return d == 0
}

func implies(a, b string) string {
	if a == "true" {
		return b
	}
	if b == "true" || a == "false" {
		return "true"
	}
	return "(=> " + a + " " + b + ")"
}

func ite(c, a, b string) string {
	if c == "true" {
		return a
	}
	if c == "false" {
		return b
	}
	return "(ite " + c + " " + a + " " + b + ")"
}

func eq(a, b string) string {
	if a == b {
		return "true"
	}
	if isIntLit(a) && isIntLit(b) {
		return "false" // two different integer literals
	}
	return "(= " + a + " " + b + ")"
}

func isIntLit(s string) bool {
	if s == "" {
		return false
	}
	for _, c := range s {
		if c < '0' || c > '9' {
			return false
		}
	}
	return true
}

func sel(arr, idx string) string { return "(select " + arr + " " + idx + ")" }
func store(arr, idx, v string) string {
	return "(store " + arr + " " + idx + " " + v + ")"
}
func add(a, b string) string {
	if b == "0" {
		return a
	}
	if a == "0" {
		return b
	}
	return "(+ " + a + " " + b + ")"
}
func sub(a, b string) string {
	if b == "0" {
		return a
	}
	return "(- " + a + " " + b + ")"
}

// slice accessors
func slRef(s string) string { return proj("sl.ref", s, 0) }
func slOff(s string) string { return proj("sl.off", s, 1) }
func slLen(s string) string { return proj("sl.len", s, 2) }
func slCap(s string) string { return proj("sl.cap", s, 3) }
func mkSlice(ref, off, ln, cp string) string {
	return fmt.Sprintf("(mk-slice %s %s %s %s)", ref, off, ln, cp)
}
func strLen(s string) string { return proj("s.len", s, 0) }
func strArr(s string) string { return proj("s.arr", s, 1) }
func mkStr(l, a string) string { return fmt.Sprintf("(mk-str %s %s)", l, a) }
func ifTyp(s string) string    { return proj("i.typ", s, 0) }
func ifVal(s string) string    { return proj("i.val", s, 1) }
func mkIface(t, v string) string {
	return fmt.Sprintf("(mk-iface %s %s)", t, v)
}

// proj simplifies (sel (mk ...)) when the constructor application is syntactically visible.
func proj(selname, s string, idx int) string {
	for _, c := range []string{"(mk-slice ", "(mk-str ", "(mk-iface "} {
		if strings.HasPrefix(s, c) {
			args := splitArgs(s[len(c) : len(s)-1])
			if idx < len(args) {
				return args[idx]
			}
		}
	}
	return "(" + selname + " " + s + ")"
}

// splitArgs splits a space-separated list of s-expressions at top level.
func splitArgs(s string) []string {
	var out []string
	d := 0
	start := -1
	for i, c := range s {
		switch c {
		case '(':
			if d == 0 && start < 0 {
				start = i
			}
			d++
		case ')':
			d--
			if d == 0 {
				out = append(out, s[start:i+1])
				start = -1
			}
		case ' ', '\n', '\t':
			if d == 0 && start >= 0 {
				out = append(out, s[start:i])
				start = -1
			}
		default:
			if d == 0 && start < 0 {
				start = i
			}
		}
	}
	if start >= 0 {
		out = append(out, s[start:])
	}
	return out
}

// type tags for interfaces: one small integer per dynamic Go type.
var typeTags = map[string]int{}
var typeTagList []types.Type

func typeTag(t types.Type) int {
	k := types.TypeString(t, nil)
	if n, ok := typeTags[k]; ok {
		return n
	}
	n := len(typeTags) + 1
	typeTags[k] = n
	typeTagList = append(typeTagList, t)
	return n
}

// box / unbox functions for non-pointer dynamic types stored in interfaces.
func boxFuns(t types.Type) (box, unbox string) {
	s := sortOf(t)
	k := sortKey(s)
	box, unbox = "box!"+k, "unbox!"+k
	if !reg.boxes[k] {
		reg.boxes[k] = true
		reg.decl(fmt.Sprintf("(declare-fun %s (%s) Int)", box, s))
		reg.decl(fmt.Sprintf("(declare-fun %s (Int) %s)", unbox, s))
		reg.decl(fmt.Sprintf("(assert (forall ((x %s)) (! (= (%s (%s x)) x) :pattern ((%s x)))))", s, unbox, box, box))
	}
	return
}

// cardinality function for a map domain sort.
func cardFun(keySort string) string {
	k := sortKey(keySort)
	name := "card!" + k
	if !reg.cards[k] {
		reg.cards[k] = true
		reg.decl(fmt.Sprintf("(declare-fun %s ((Array %s Bool)) Int)", name, keySort))
		reg.decl(fmt.Sprintf("(assert (= (%s ((as const (Array %s Bool)) false)) 0))", name, keySort))
	}
	return name
}

func sortedKeys[V any](m map[string]V) []string {
	var ks []string
	for k := range m {
		ks = append(ks, k)
	}
	sort.Strings(ks)
	return ks
}
