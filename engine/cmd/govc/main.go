package main

import (
	"flag"
	"fmt"
	"os"
	"sort"
	"strings"
	"time"
)

func main() {
	repo := flag.String("repo", "/repo", "repository root")
	module := flag.String("module", ".", "module directory relative to the repository root")
	pkg := flag.String("pkg", "", "package import path suffix (dev mode)")
	units := flag.String("units", "", "comma separated unit names (dev mode); 'all' = every function of the package")
	prop := flag.String("prop", "", "property id (check mode)")
	tier := flag.String("tier", "quick", "quick|thorough")
	verbose := flag.Bool("v", false, "verbose")
	keep := flag.Bool("keep", false, "keep query files")
	timeout := flag.Float64("timeout", 10, "solver timeout per obligation (s)")
	own := flag.Bool("ownership", false, "check guarded-by ownership clauses")
	seqFlag := flag.Bool("seq", false, "dev mode: sequential reading (func@seq contracts)")
	kindsFlag := flag.String("kinds", "", "dev mode: keep only obligations of these kinds (comma separated)")
	verif := flag.String("verif", "/verif", "verif root")
	replayFile := flag.String("replay", "", "replay a recorded violation file")
	flag.Parse()

	if *prop != "" || *replayFile != "" {
		os.Exit(checkMain(*repo, *verif, *prop, *tier, *replayFile, *verbose))
	}

	start := time.Now()
	e := newEngine(*repo)
	e.solverTimeout = *timeout
	e.checkOwnership = *own
	e.seqMode = *seqFlag
	tmp, _ := os.MkdirTemp("", "govc")
	e.tmpdir = tmp
	if !*keep {
		defer os.RemoveAll(tmp)
	}
	if err := e.load(*module); err != nil {
		fmt.Fprintln(os.Stderr, "load:", err)
		os.Exit(2)
	}
	fmt.Fprintf(os.Stderr, "loaded in %.1fs\n", time.Since(start).Seconds())
	var pkgPath string
	for p := range e.spkgs {
		if strings.HasSuffix(p, *pkg) {
			pkgPath = p
		}
	}
	if pkgPath == "" {
		fmt.Fprintln(os.Stderr, "package not found:", *pkg)
		os.Exit(2)
	}
	var names []string
	names = e.expandUnitNames(pkgPath, strings.Split(*units, ","))
	us, missing := e.unitsFor(pkgPath, names)
	for _, m := range missing {
		fmt.Println("MISSING unit", m)
	}
	if *own {
		e.ownershipComplete(pkgPath)
	}
	for _, u := range us {
		e.runUnit(u)
	}
	if *kindsFlag != "" {
		keep := map[string]bool{}
		for _, k := range strings.Split(*kindsFlag, ",") {
			keep[k] = true
		}
		var kept []*Obligation
		for _, o := range e.obligations {
			if keep[o.Kind] || o.Status == "error" {
				kept = append(kept, o)
			}
		}
		e.obligations = kept
	}
	fmt.Fprintf(os.Stderr, "generated %d obligations (%d trivial) on %d paths in %.1fs\n", len(e.obligations), e.trivial, e.paths, time.Since(start).Seconds())
	e.solveAll()
	e.report(*verbose)
	for _, m := range e.allContractErrors() {
		fmt.Println("CONTRACT-ERROR", m)
	}
	fmt.Fprintf(os.Stderr, "total %.1fs\n", time.Since(start).Seconds())
}

func (e *Engine) runUnit(u *Unit) {
	defer func() {
		if r := recover(); r != nil {
			o := &Obligation{Name: u.Name + "#engine-error", Kind: "engine-error", Func: u.Name, Goal: "false", Status: "error", Output: fmt.Sprint(r)}
			e.addObligation(o)
			if os.Getenv("GOVC_PANIC") != "" {
				panic(r)
			}
		}
	}()
	e.ranUnits[u.Name] = true
	if u.Lemma != nil {
		e.runLemmaUnit(u)
	} else {
		e.runFunctionUnit(u)
	}
}

type obGroup struct {
	name      string
	kind      string
	instances []*Obligation
	status    string // discharged | failed | undecided | error
	worst     *Obligation
}

func (e *Engine) groups() []*obGroup {
	m := map[string]*obGroup{}
	var order []string
	for _, o := range e.obligations {
		g := m[o.Name]
		if g == nil {
			g = &obGroup{name: o.Name, kind: o.Kind}
			m[o.Name] = g
			order = append(order, o.Name)
		}
		g.instances = append(g.instances, o)
	}
	var out []*obGroup
	for _, n := range order {
		g := m[n]
		g.status = "discharged"
		for _, o := range g.instances {
			if o.ExpectSat {
				// cover obligations: the negated goal must be satisfiable (precondition not contradictory)
				switch o.Status {
				case "sat":
				case "unsat":
					g.status, g.worst = "failed", o
				default:
					if g.status == "discharged" {
						g.status, g.worst = "undecided", o
					}
				}
				continue
			}
			switch o.Status {
			case "unsat":
			case "sat":
				if g.status != "failed" {
					g.status, g.worst = "failed", o
				}
			case "error":
				if g.status != "failed" {
					g.status, g.worst = "error", o
				}
			default:
				if g.status == "discharged" {
					g.status, g.worst = "undecided", o
				}
			}
		}
		out = append(out, g)
	}
	return out
}

func (e *Engine) report(verbose bool) {
	gs := e.groups()
	cnt := map[string]int{}
	for _, g := range gs {
		cnt[g.status]++
		if g.status != "discharged" || verbose {
			pos, out := "", ""
			if g.worst != nil {
				pos = g.worst.Pos
				out = g.worst.Output
				if g.worst.Model != nil && len(g.worst.Model) > 0 {
					var ks []string
					for k, v := range g.worst.Model {
						if !strings.Contains(k, "[") || len(ks) < 12 {
							ks = append(ks, k+"="+v)
						}
					}
					sort.Strings(ks)
					if len(ks) > 14 {
						ks = ks[:14]
					}
					out = strings.Join(ks, " ")
				}
			} else if len(g.instances) > 0 {
				pos = g.instances[0].Pos
			}
			fmt.Printf("%-11s %s  [%s] (%d paths) %s\n", strings.ToUpper(g.status), g.name, pos, len(g.instances), strings.ReplaceAll(out, "\n", " | "))
			if g.worst != nil && g.worst.QueryFile != "" && verbose {
				fmt.Printf("            query: %s trace: %s\n", g.worst.QueryFile, strings.Join(g.worst.Trace, " "))
			}
			if verbose && g.status != "discharged" {
				for _, o := range g.instances {
					if o.Status != "unsat" {
						fmt.Printf("            %s %s %s\n", o.Status, o.QueryFile, strings.Join(o.Trace, " "))
					}
				}
			}
		}
	}
	if os.Getenv("GOVC_STEPS") != "" {
		fmt.Printf("STEPS qf=%d/%dms light=%d/%dms full=%d/%dms other=%d/%dms\n", stepCount[0], stepTime[0], stepCount[1], stepTime[1], stepCount[2], stepTime[2], stepCount[3], stepTime[3])
	}
	fmt.Printf("SUMMARY groups=%d discharged=%d failed=%d undecided=%d error=%d instances=%d\n", len(gs), cnt["discharged"], cnt["failed"], cnt["undecided"], cnt["error"], len(e.obligations))
	if len(e.unsupportedSeen) > 0 {
		fmt.Println("UNSUPPORTED:", strings.Join(sortedKeys(e.unsupportedSeen), "; "))
	}
	if len(e.unmodelled) > 0 {
		fmt.Println("UNMODELLED:", strings.Join(sortedKeys(e.unmodelled), "; "))
	}
	if len(e.unmodelledIface) > 0 {
		fmt.Println("CALLBACKS:", strings.Join(sortedKeys(e.unmodelledIface), "; "))
	}
}

func init() {
	if len(os.Args) > 1 && os.Args[1] == "-list" {
		e := newEngine("/repo")
		mod := "."
		if len(os.Args) > 3 {
			mod = os.Args[3]
		}
		if err := e.load(mod); err != nil {
			fmt.Println(err)
			os.Exit(2)
		}
		for p := range e.spkgs {
			if strings.HasSuffix(p, os.Args[2]) {
				for _, n := range e.allFunctionNames(p) {
					fmt.Println(n)
				}
			}
		}
		os.Exit(0)
	}
}
