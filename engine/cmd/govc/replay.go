package main

// Replay of counterexamples on the real code: an in-package test injected with `go test -overlay`
// (nothing is written into the repository).

import (
	"encoding/json"
	"fmt"
	"os"
	"os/exec"
	"path/filepath"
	"strings"
)

const replayRuntime = `
type govcLogger struct{}

func (govcLogger) DebugEnabled() bool                      { return false }
func (govcLogger) Debugf(format string, a ...interface{}) {}
func (govcLogger) Infof(format string, a ...interface{})  {}
func (govcLogger) Warnf(format string, a ...interface{})  {}
func (govcLogger) Errorf(format string, a ...interface{}) {}

func govcInt(m map[string]string, k string) int64 {
	v, ok := m[k]
	if !ok {
		return 0
	}
	n, _ := strconv.ParseInt(v, 10, 64)
	return n
}

func govcSettable(v reflect.Value) reflect.Value {
	if v.CanSet() {
		return v
	}
	return reflect.NewAt(v.Type(), unsafe.Pointer(v.UnsafeAddr())).Elem()
}

// govcBuild constructs a value of type t from the solver model (keys are access paths rooted at prefix).
func govcBuild(t reflect.Type, m map[string]string, prefix string, depth int) reflect.Value {
	v := reflect.New(t).Elem()
	switch t.Kind() {
	case reflect.Int, reflect.Int8, reflect.Int16, reflect.Int32, reflect.Int64:
		v.SetInt(govcInt(m, prefix))
	case reflect.Uint, reflect.Uint8, reflect.Uint16, reflect.Uint32, reflect.Uint64, reflect.Uintptr:
		v.SetUint(uint64(govcInt(m, prefix)))
	case reflect.Bool:
		v.SetBool(m[prefix] == "true")
	case reflect.String:
		n := int(govcInt(m, prefix+".len"))
		if n > 1<<20 {
			n = 1 << 20
		}
		b := make([]byte, n)
		for i := 0; i < n && i < 64; i++ {
			b[i] = byte(govcInt(m, fmt.Sprintf("%s[%d]", prefix, i)))
		}
		v.SetString(string(b))
	case reflect.Slice:
		if m[prefix+".nil"] == "true" {
			return v
		}
		if _, known := m[prefix+".len"]; !known {
			return v
		}
		n, c := int(govcInt(m, prefix+".len")), int(govcInt(m, prefix+".cap"))
		if n > 1<<20 {
			n = 1 << 20
		}
		if c < n || c > n+1<<16 {
			c = n
		}
		s := reflect.MakeSlice(t, n, c)
		for i := 0; i < n && i < 64; i++ {
			k := fmt.Sprintf("%s[%d]", prefix, i)
			switch t.Elem().Kind() {
			case reflect.Uint8, reflect.Uint16, reflect.Uint32, reflect.Uint64, reflect.Uint:
				s.Index(i).SetUint(uint64(govcInt(m, k)))
			case reflect.Int, reflect.Int8, reflect.Int16, reflect.Int32, reflect.Int64:
				s.Index(i).SetInt(govcInt(m, k))
			}
		}
		v.Set(s)
	case reflect.Ptr:
		if m[prefix+".nil"] == "true" || depth > 3 {
			return v
		}
		if _, known := m[prefix+".nil"]; !known && depth > 0 {
			return v
		}
		p := reflect.New(t.Elem())
		p.Elem().Set(govcBuild(t.Elem(), m, prefix, depth+1))
		v.Set(p)
	case reflect.Struct:
		for i := 0; i < t.NumField(); i++ {
			f := govcSettable(v.Field(i))
			f.Set(govcBuild(t.Field(i).Type, m, prefix+"."+t.Field(i).Name, depth+1))
		}
	case reflect.Map:
		if m[prefix+".nil"] == "false" {
			v.Set(reflect.MakeMap(t))
		}
	case reflect.Interface:
		if m[prefix+".nil"] == "true" {
			return v
		}
		lt := reflect.TypeOf(govcLogger{})
		if lt.Implements(t) {
			v.Set(reflect.ValueOf(govcLogger{}))
		}
	case reflect.Func:
		if m[prefix+".nil"] == "true" {
			return v
		}
		v.Set(reflect.MakeFunc(t, func(args []reflect.Value) []reflect.Value {
			out := make([]reflect.Value, t.NumOut())
			for i := range out {
				out[i] = reflect.Zero(t.Out(i))
			}
			return out
		}))
	}
	return v
}

var govcStack string

func govcCall(fn interface{}, names []string, m map[string]string) (panicked interface{}, results []reflect.Value) {
	f := reflect.ValueOf(fn)
	t := f.Type()
	var args []reflect.Value
	for i := 0; i < t.NumIn(); i++ {
		args = append(args, govcBuild(t.In(i), m, names[i], 0))
	}
	defer func() {
		panicked = recover()
		if panicked != nil {
			govcStack = string(debug.Stack())
		}
	}()
	if t.IsVariadic() {
		results = f.CallSlice(args)
	} else {
		results = f.Call(args)
	}
	return
}
`

type replayMeta struct {
	Property   string            `json:"property"`
	Obligation string            `json:"obligation"`
	Module     string            `json:"module"`
	PkgDir     string            `json:"pkg_dir"`
	Kind       string            `json:"kind"`
	Model      map[string]string `json:"model"`
}

// tryReplay writes a replay file for a failed obligation and runs it. It returns the file path and whether the
// violation was reproduced on the real code.
func tryReplay(repo, verif, prop string, r *groupResult) (string, bool) {
	o := r.Ob
	if o == nil || o.Status != "sat" || len(o.Model) == 0 || !safetyKinds[r.Kind] || o.ReplayFn == "" {
		return writeReplayNote(verif, prop, r.Name, "no executable replay: "+replayReason(r), r), false
	}
	dir := filepath.Join(verif, "replays", prop)
	os.MkdirAll(dir, 0o755)
	path := filepath.Join(dir, sanitize(r.Name)+"_test.go")
	meta := replayMeta{Property: prop, Obligation: r.Name, Module: o.ReplayModule, PkgDir: o.ReplayPkgDir, Kind: r.Kind, Model: o.Model}
	mb, _ := json.Marshal(meta)
	var names []string
	for _, n := range o.ReplayParams {
		names = append(names, fmt.Sprintf("%q", n))
	}
	src := fmt.Sprintf(`// govc-replay: %s
// Replays a verifier counterexample on the real code. Run through: /verif/check --replay <this file>
// obligation: %s
// solver: %s   trace: %s
package %s

import (
	"fmt"
	"reflect"
	"runtime/debug"
	"strconv"
	"strings"
	"testing"
	"unsafe"
)

var _ = fmt.Sprint
var _ = strconv.Itoa
var _ unsafe.Pointer
%s
func TestGovcReplay(t *testing.T) {
	model := map[string]string{}
	for k, v := range %#v {
		model[k] = v
	}
	p, _ := govcCall(%s, []string{%s}, model)
	if p != nil && strings.Contains(govcStack, %q) {
		t.Logf("GOVC-REPLAY: panic reproduced at the obligation's site: %%v", p)
		fmt.Println("GOVC-REPLAY-CONFIRMED")
		return
	}
	if p != nil {
		t.Logf("GOVC-REPLAY: a different panic occurred (the model's inputs could not be built faithfully): %%v", p)
	}
	fmt.Println("GOVC-REPLAY-NOT-REPRODUCED")
}
`, string(mb), r.Name, o.Solver, strings.Join(o.Trace, " "), o.ReplayPkgName, replayRuntime, o.Model, o.ReplayFn, strings.Join(names, ", "), siteMarker(r.Pos))
	os.WriteFile(path, []byte(src), 0o644)
	ok, out := runReplayFile(repo, path)
	if !ok {
		os.WriteFile(path+".log", []byte(out), 0o644)
	}
	return path, ok
}

func replayReason(r *groupResult) string {
	o := r.Ob
	switch {
	case o == nil:
		return "no obligation instance"
	case o.Status != "sat":
		return "the solvers returned no model (" + o.Status + ")"
	case !safetyKinds[r.Kind]:
		return "obligation kind " + r.Kind + " has no executable oracle"
	case o.ReplayFn == "":
		return "the unit cannot be called from a test (closure or lemma)"
	}
	return "empty model"
}

func runReplayFile(repo, path string) (bool, string) {
	b, err := os.ReadFile(path)
	if err != nil {
		return false, err.Error()
	}
	first := strings.SplitN(string(b), "\n", 2)[0]
	if !strings.HasPrefix(first, "// govc-replay: ") {
		return false, "not a govc replay file"
	}
	var meta replayMeta
	if err := json.Unmarshal([]byte(first[len("// govc-replay: "):]), &meta); err != nil {
		return false, err.Error()
	}
	modDir := filepath.Join(repo, meta.Module)
	target := filepath.Join(repo, meta.PkgDir, "zz_govc_replay_test.go")
	tmp, _ := os.MkdirTemp("", "govcreplay")
	defer os.RemoveAll(tmp)
	ov := filepath.Join(tmp, "ov.json")
	ovb, _ := json.Marshal(map[string]any{"Replace": map[string]string{target: path}})
	os.WriteFile(ov, ovb, 0o644)
	rel, _ := filepath.Rel(modDir, filepath.Join(repo, meta.PkgDir))
	cmd := exec.Command("go", "test", "-overlay", ov, "-vet=off", "-count=1", "-timeout", "60s", "-run", "^TestGovcReplay$", "-v", "./"+rel)
	cmd.Dir = modDir
	cmd.Env = append(os.Environ(), "GOFLAGS=-mod=mod", "GOPROXY=off", "GOSUMDB=off", "GOTOOLCHAIN=local")
	out, _ := cmd.CombinedOutput()
	s := string(out)
	return strings.Contains(s, "GOVC-REPLAY-CONFIRMED"), s
}

// siteMarker turns "net/net.go:431" into "/net.go:431", the form in which the frame appears in a Go stack trace.
func siteMarker(pos string) string {
	i := strings.LastIndex(pos, "/")
	if i < 0 {
		return "/" + pos
	}
	return pos[i:]
}
