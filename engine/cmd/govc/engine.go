package main

// Engine: loading of the repository packages, contract tables, lookup helpers.

import (
	"fmt"
	"go/ast"
	"go/token"
	"go/types"
	"os"
	"path/filepath"
	"sort"
	"strings"
	"sync"

	"golang.org/x/tools/go/ast/astutil"
	"golang.org/x/tools/go/packages"
	"golang.org/x/tools/go/ssa"
	"golang.org/x/tools/go/ssa/ssautil"
)

type Engine struct {
	repo     string
	module   string // module dir relative to repo ("." for root)
	fset     *token.FileSet
	prog     *ssa.Program
	pkgs     []*packages.Package
	spkgs    map[string]*ssa.Package
	repoPkgs map[string]bool
	files    map[*token.File]*ast.File

	contracts map[string]*ContractFile // by package path
	ctByFn    map[*ssa.Function]*Contract
	seqCtByFn map[*ssa.Function]*Contract
	seqMode   bool // the target is verified in the sequential reading: "func@seq" contracts take precedence
	fnByName  map[string]map[string]*ssa.Function // pkg path -> display name (without pkg) -> function

	obligations []*Obligation
	obMu        sync.Mutex
	trivial     int
	paths       int
	steps       int
	unitPaths   int
	unitBudgetHit bool
	quietBudget bool

	funcIDs   map[string]int
	globalIDs map[string]int
	siteOcc   map[siteKey][]ssa.Instruction
	loops     map[*ssa.Function]map[*ssa.BasicBlock]*loopInfo

	unsupportedSeen  map[string]bool
	unmodelled       map[string]bool
	unmodelledIface  map[string]bool
	inlined          map[string]bool
	calledByContract map[string]bool
	execContracts    map[*Contract]bool
	stableDone       map[string]bool
	inlineOnly       map[string]bool
	specErrors       map[string]bool
	specFuncsDefined map[string]*definedSpecFunc
	ranUnits         map[string]bool
	boundedNotes     []string
	usedLemmas       map[string]bool // induction lemmas assumed somewhere in this run: each must be a unit of the run
	usedLibModels    map[string]bool
	assumptions      map[string]bool

	returnsSeen    int
	guardedOK      int
	checkOwnership bool
	inAtomic       bool

	solverTimeout float64
	workers       int
	tmpdir        string
	cur           *Unit
}

type Unit struct {
	Name       string
	Fn         *ssa.Function
	Contract   *Contract
	Lemma      *Lemma
	Pkg        string
	ghostVars  map[string]Val
	entryFreeVars map[string]Val // closures verified on their own: entry contents of the captured variables
	entryLocks []string
}

func newEngine(repo string) *Engine {
	return &Engine{repo: repo, spkgs: map[string]*ssa.Package{}, repoPkgs: map[string]bool{}, files: map[*token.File]*ast.File{},
		contracts: map[string]*ContractFile{}, ctByFn: map[*ssa.Function]*Contract{}, seqCtByFn: map[*ssa.Function]*Contract{}, fnByName: map[string]map[string]*ssa.Function{},
		funcIDs: map[string]int{}, globalIDs: map[string]int{}, siteOcc: map[siteKey][]ssa.Instruction{}, loops: map[*ssa.Function]map[*ssa.BasicBlock]*loopInfo{},
		unsupportedSeen: map[string]bool{}, unmodelled: map[string]bool{}, unmodelledIface: map[string]bool{}, inlined: map[string]bool{}, calledByContract: map[string]bool{}, execContracts: map[*Contract]bool{}, stableDone: map[string]bool{}, inlineOnly: map[string]bool{},
		specErrors: map[string]bool{}, specFuncsDefined: map[string]*definedSpecFunc{}, usedLemmas: map[string]bool{}, ranUnits: map[string]bool{}, usedLibModels: map[string]bool{}, assumptions: map[string]bool{},
		solverTimeout: 10, workers: 16}
}

// load loads every package of one module of the repository with the verif tag and builds naive SSA.
func (e *Engine) load(moduleDir string) error {
	e.module = moduleDir
	dir := filepath.Join(e.repo, moduleDir)
	e.fset = token.NewFileSet()
	cfg := &packages.Config{
		Mode:       packages.NeedName | packages.NeedFiles | packages.NeedCompiledGoFiles | packages.NeedImports | packages.NeedTypes | packages.NeedSyntax | packages.NeedTypesInfo | packages.NeedTypesSizes | packages.NeedModule,
		Dir:        dir,
		Fset:       e.fset,
		BuildFlags: []string{"-tags=verif"},
		Env:        append(os.Environ(), "GOFLAGS=-mod=mod", "GOPROXY=off", "GOSUMDB=off", "GOTOOLCHAIN=local"),
	}
	pkgs, err := packages.Load(cfg, "./...")
	if err != nil {
		return err
	}
	var errs []string
	for _, p := range pkgs {
		for _, pe := range p.Errors {
			errs = append(errs, pe.Error())
		}
	}
	if len(errs) > 0 {
		return fmt.Errorf("package errors: %s", strings.Join(errs, "; "))
	}
	e.pkgs = pkgs
	// repository packages = the packages of this module (loaded with syntax); everything else is types only
	for _, p := range pkgs {
		if len(p.Syntax) > 0 {
			e.repoPkgs[p.PkgPath] = true
		}
	}
	prog, _ := ssautil.Packages(pkgs, ssa.NaiveForm|ssa.GlobalDebug)
	prog.Build()
	e.prog = prog
	for _, p := range pkgs {
		if !e.repoPkgs[p.PkgPath] {
			continue
		}
		sp := prog.Package(p.Types)
		if sp == nil {
			continue
		}
		e.spkgs[p.PkgPath] = sp
		for _, f := range p.Syntax {
			tf := e.fset.File(f.Pos())
			e.files[tf] = f
			if strings.HasSuffix(tf.Name(), "zz_contracts_verif.go") {
				cf := parseContractFile(p.PkgPath, tf.Name(), f, e.fset)
				if old, ok := e.contracts[p.PkgPath]; ok {
					// merge
					for k, v := range cf.Funcs {
						old.Funcs[k] = v
					}
					for k, v := range cf.SpecFuncs {
						old.SpecFuncs[k] = v
					}
					old.Lemmas = append(old.Lemmas, cf.Lemmas...)
					old.Monitors = append(old.Monitors, cf.Monitors...)
					old.Onces = append(old.Onces, cf.Onces...)
					for k, v := range cf.Types {
						old.Types[k] = v
					}
					old.Errors = append(old.Errors, cf.Errors...)
				} else {
					e.contracts[p.PkgPath] = cf
				}
			}
		}
		e.indexFunctions(p.PkgPath, sp)
	}
	// resolve contract targets
	for path, cf := range e.contracts {
		for name, ct := range cf.Funcs {
			if strings.Contains(name, ".") && !strings.HasPrefix(name, "(") && e.fnByName[path][name] == nil {
				// interface method contract "Message.Ack": resolved at invoke sites
				continue
			}
			fn := e.fnByName[path][name]
			if fn == nil {
				continue // reported as target-exists failure by the driver
			}
			e.ctByFn[fn] = ct
		}
		for name, ct := range cf.SeqFuncs {
			if fn := e.fnByName[path][name]; fn != nil {
				e.seqCtByFn[fn] = ct
			}
		}
	}
	return nil
}

func (e *Engine) indexFunctions(path string, sp *ssa.Package) {
	m := map[string]*ssa.Function{}
	e.fnByName[path] = m
	var add func(f *ssa.Function)
	add = func(f *ssa.Function) {
		if f == nil || f.Blocks == nil {
			return
		}
		name := funcDisplayName(f)
		name = strings.TrimPrefix(name, sp.Pkg.Name()+".")
		m[name] = f
		for _, af := range f.AnonFuncs {
			add(af)
		}
	}
	for _, mem := range sp.Members {
		switch x := mem.(type) {
		case *ssa.Function:
			add(x)
		case *ssa.Type:
			for _, t := range []types.Type{x.Type(), types.NewPointer(x.Type())} {
				ms := e.prog.MethodSets.MethodSet(t)
				for i := 0; i < ms.Len(); i++ {
					f := e.prog.MethodValue(ms.At(i))
					if f != nil && f.Synthetic == "" {
						add(f)
					}
				}
			}
		}
	}
}

func (e *Engine) contractFor(fn *ssa.Function) *Contract {
	if e.seqMode {
		if ct, ok := e.seqCtByFn[fn]; ok {
			return ct
		}
	}
	return e.ctByFn[fn]
}

func (e *Engine) pkgOf(fn *ssa.Function) *types.Package {
	for fn.Parent() != nil {
		fn = fn.Parent()
	}
	if fn.Pkg != nil {
		return fn.Pkg.Pkg
	}
	if o := fn.Object(); o != nil {
		return o.Pkg()
	}
	return nil
}

func (e *Engine) typesPkg(path string) *types.Package {
	if sp, ok := e.spkgs[path]; ok {
		return sp.Pkg
	}
	return nil
}

func (e *Engine) posString(p token.Pos) string {
	if !p.IsValid() {
		return ""
	}
	pos := e.fset.Position(p)
	rel, err := filepath.Rel(e.repo, pos.Filename)
	if err != nil {
		rel = pos.Filename
	}
	return fmt.Sprintf("%s:%d", rel, pos.Line)
}

// srcSnippet returns the normalised source text of the smallest expression enclosing pos.
func (e *Engine) srcSnippet(fn *ssa.Function, pos token.Pos) string {
	if !pos.IsValid() {
		return ""
	}
	tf := e.fset.File(pos)
	if tf == nil {
		return ""
	}
	f := e.files[tf]
	if f == nil {
		return ""
	}
	path, _ := astutil.PathEnclosingInterval(f, pos, pos+1)
	for _, n := range path {
		switch x := n.(type) {
		case *ast.IndexExpr, *ast.SliceExpr, *ast.CallExpr, *ast.TypeAssertExpr, *ast.StarExpr, *ast.SelectorExpr, *ast.BinaryExpr, *ast.UnaryExpr, *ast.CompositeLit, *ast.AssignStmt, *ast.IncDecStmt, *ast.RangeStmt, *ast.SendStmt, *ast.ReturnStmt, *ast.GoStmt, *ast.DeferStmt:
			start, end := tf.Offset(x.Pos()), tf.Offset(x.End())
			src, err := os.ReadFile(tf.Name())
			if err != nil || end > len(src) {
				return ""
			}
			s := string(src[start:end])
			if r, ok := x.(*ast.RangeStmt); ok {
				s = string(src[start:tf.Offset(r.Body.Pos())])
			}
			s = strings.Join(strings.Fields(s), " ")
			if len(s) > 70 {
				s = s[:70] + "…"
			}
			return s
		}
	}
	return ""
}

func (e *Engine) addObligation(o *Obligation) {
	e.obMu.Lock()
	e.obligations = append(e.obligations, o)
	e.obMu.Unlock()
}

func (e *Engine) specFunc(pkg *types.Package, name string) *SpecFunc {
	if pkg != nil {
		if cf, ok := e.contracts[pkg.Path()]; ok {
			if sf, ok := cf.SpecFuncs[name]; ok {
				return sf
			}
		}
	}
	return nil
}

// assumeSpecLemmas: when a (non-macro) spec function is applied on a path, the file-level axioms of its contract file and
// the induction lemmas whose patterns mention it become available on that path (once per path). A lemma is never available
// in its own proof nor in the proof of a lemma declared before it (no circular reasoning); every lemma used must be a
// unit of the running check, otherwise it is reported as a contract error.
func (e *Engine) assumeSpecLemmas(env *Env, sf *SpecFunc) {
	if env.st == nil || sf.Macro {
		return
	}
	cf, ok := e.contracts[sf.Pkg]
	if !ok {
		return
	}
	mark := func(key string) bool {
		if env.st.elemsDone[key] != "" {
			return false
		}
		nd := make(map[string]string, len(env.st.elemsDone)+1)
		for k, v := range env.st.elemsDone {
			nd[k] = v
		}
		nd[key] = "1"
		env.st.elemsDone = nd
		return true
	}
	// defining equations of recursive spec functions: this one and every recursive one its equation mentions
	var defs func(name string)
	defs = func(name string) {
		d := e.specFuncsDefined[sf.Pkg+"."+name]
		if d == nil || d.axiom == "" || !mark("def:"+sf.Pkg+"."+name) {
			return
		}
		env.st.assume(d.axiom)
		for other, od := range e.specFuncsDefined {
			if od.axiom != "" && strings.HasPrefix(other, sf.Pkg+".") && strings.Contains(d.axiom, "("+od.sym+" ") {
				defs(other[len(sf.Pkg)+1:])
			}
		}
	}
	defs(sf.Name)
	pkg := e.typesPkg(sf.Pkg)
	for i, ax := range cf.Axioms {
		key := fmt.Sprintf("axiom:%s#%d", sf.Pkg, i)
		if !mark(key) {
			continue
		}
		aenv := &Env{eng: e, st: env.st, pkg: pkg, vars: map[string]Val{}, where: "axiom " + ax.Name, noHeap: true}
		env.st.assume(aenv.evalBool(ax.Expr))
		e.assumptions["axiom ["+ax.Name+"] of "+e.shortPkg(sf.Pkg)+" (assumed, not proved): "+ax.Text] = true
	}
	for _, lm := range cf.Lemmas {
		if lm.Induction == "" {
			continue
		}
		mentions := false
		for _, p := range lm.Patterns {
			if strings.Contains(p.String(), sf.Name+"(") {
				mentions = true
			}
		}
		if !mentions {
			continue
		}
		if e.cur != nil && e.cur.Lemma != nil && e.cur.Lemma.Pkg == lm.Pkg && e.cur.Lemma.Index <= lm.Index {
			continue
		}
		key := "lemma:" + lm.Pkg + "." + lm.Name
		if !mark(key) {
			continue
		}
		env.st.assume(e.lemmaAxiom(env.st, lm))
		e.usedLemmas[e.shortPkg(lm.Pkg)+".lemma:"+lm.Name] = true
	}
}

// lemmaAxiom: forall params :: requires ==> asserts, with the lemma's patterns as a multi-pattern.
func (e *Engine) lemmaAxiom(st *State, lm *Lemma) string {
	pkg := e.typesPkg(lm.Pkg)
	env := &Env{eng: e, st: st, pkg: pkg, vars: map[string]Val{}, where: "lemma " + lm.Name + " (as axiom)", noHeap: true, quant: 1}
	var binders []string
	for _, p := range lm.Params {
		t := env.typeOf(p.Type)
		if t == nil {
			env.errf("unknown type %q", p.Type)
			t = types.Typ[types.Int]
		}
		sym := "q!l!" + sanitize(p.Name)
		binders = append(binders, fmt.Sprintf("(%s %s)", sym, sortOf(t)))
		env.vars[p.Name] = Val{S: sym, T: t}
	}
	var pre, post, pats []string
	for _, rq := range lm.Requires {
		pre = append(pre, env.evalBool(rq.Expr))
	}
	for _, s := range lm.Steps {
		if s.Kind == "assert" {
			post = append(post, env.evalBool(s.Expr))
		}
	}
	for _, p := range lm.Patterns {
		pats = append(pats, env.eval(p).S)
	}
	if len(pats) == 0 {
		env.errf("induction lemma %s needs a pattern", lm.Name)
		return "true"
	}
	return fmt.Sprintf("(forall (%s) (! (=> %s %s) :pattern (%s)))", strings.Join(binders, " "), and(pre...), and(post...), strings.Join(pats, " "))
}

type definedSpecFunc struct {
	sym    string
	ptypes []types.Type
	rt     types.Type
	axiom  string // recursive functions: the defining equation, assumed per path
}

func (e *Engine) defineSpecFunc(env *Env, sf *SpecFunc) (string, []types.Type, types.Type) {
	key := sf.Pkg + "." + sf.Name
	if d, ok := e.specFuncsDefined[key]; ok {
		return d.sym, d.ptypes, d.rt
	}
	pkg := e.typesPkg(sf.Pkg)
	tenv := &Env{eng: e, pkg: pkg, where: "spec func " + sf.Name}
	var ptypes []types.Type
	var binders []string
	benv := &Env{eng: e, st: env.st, pkg: pkg, vars: map[string]Val{}, where: "spec func " + sf.Name, noHeap: true, quant: 1}
	for _, p := range sf.Params {
		t := tenv.typeOf(p.Type)
		if t == nil {
			tenv.errf("unknown parameter type %q", p.Type)
			t = types.Typ[types.Int]
		}
		ptypes = append(ptypes, t)
		sym := "p!" + sanitize(p.Name)
		binders = append(binders, fmt.Sprintf("(%s %s)", sym, sortOf(t)))
		benv.vars[p.Name] = Val{S: sym, T: t}
	}
	rt := tenv.typeOf(sf.Result)
	if rt == nil {
		tenv.errf("unknown result type %q", sf.Result)
		rt = types.Typ[types.Int]
	}
	sym := "spec!" + sanitize(sf.Name)
	d := &definedSpecFunc{sym: sym, ptypes: ptypes, rt: rt}
	e.specFuncsDefined[key] = d
	if sf.Body == nil {
		// uninterpreted
		var sorts []string
		for _, t := range ptypes {
			sorts = append(sorts, sortOf(t))
		}
		reg.decl(fmt.Sprintf("(declare-fun %s (%s) %s)", sym, strings.Join(sorts, " "), sortOf(rt)))
		return sym, ptypes, rt
	}
	// recursion: declare first if the body mentions the function itself
	rec := strings.Contains(sf.Body.String(), sf.Name+"(")
	if rec {
		// declared uninterpreted with its defining equation as a quantified axiom (pattern on the application)
		var sorts []string
		for _, t := range ptypes {
			sorts = append(sorts, sortOf(t))
		}
		reg.decl(fmt.Sprintf("(declare-fun %s (%s) %s)", sym, strings.Join(sorts, " "), sortOf(rt)))
		body := benv.eval(sf.Body)
		var names []string
		for _, p := range sf.Params {
			names = append(names, "p!"+sanitize(p.Name))
		}
		app := "(" + sym + " " + strings.Join(names, " ") + ")"
		// the defining equation is NOT a global assertion: it is assumed on the paths that apply the function (assumeSpecLemmas),
		// so that queries of unrelated units in the same run do not carry recursive definitions (they made E-matching wander:
		// an encoder postcondition that discharges in 0.2 s alone went undecided after the C18 functions were defined)
		d.axiom = fmt.Sprintf("(forall (%s) (! (= %s %s) :pattern (%s)))", strings.Join(binders, " "), app, body.S, app)
		return sym, ptypes, rt
	}
	body := benv.eval(sf.Body)
	body = benv.coerce(body, rt)
	if len(binders) == 0 {
		reg.decl(fmt.Sprintf("(define-fun %s () %s %s)", sym, sortOf(rt), body.S))
	} else {
		reg.decl(fmt.Sprintf("(define-fun %s (%s) %s %s)", sym, strings.Join(binders, " "), sortOf(rt), body.S))
	}
	return sym, ptypes, rt
}

func (e *Engine) typeSpecFor(t types.Type) *TypeSpec {
	n := namedOf(t)
	if n == nil || n.Obj().Pkg() == nil {
		return nil
	}
	if cf, ok := e.contracts[n.Obj().Pkg().Path()]; ok {
		return cf.Types[n.Obj().Name()]
	}
	return nil
}

func (e *Engine) ifaceContract(t types.Type, method string) *Contract {
	n := namedOf(t)
	if n == nil || n.Obj().Pkg() == nil {
		return nil
	}
	if cf, ok := e.contracts[n.Obj().Pkg().Path()]; ok {
		return cf.Funcs[n.Obj().Name()+"."+method]
	}
	return nil
}

func (e *Engine) allContractErrors() []string {
	var out []string
	for n := range e.inlineOnly {
		if !e.inlined[n] {
			out = append(out, fmt.Sprintf("%s has an 'inline' contract and was left out of the unit list, but no unit executed it", n))
		}
	}
	// vacuity guard: every event clause of a contract whose function was executed must have matched a program point
	for ct := range e.execContracts {
		for _, ev := range ct.Events {
			if ev.Fired == 0 {
				out = append(out, fmt.Sprintf("%s: line %d: event clause '%s %s' of %s never matched a program point (its assertions are vacuous)", ct.Pkg, ev.Line, ev.Kind, ev.Target, ct.Target))
			}
		}
	}
	for _, cf := range e.contracts {
		out = append(out, cf.Errors...)
	}
	for l := range e.usedLemmas {
		if !e.ranUnits[l] {
			// proved where it is a unit (the C18 check lists every induction lemma of bls and ps); here it is an assumption
			e.assumptions[fmt.Sprintf("induction lemma %s is used by units of this check and proved by its own unit in the C18 check, not here", l)] = true
		}
	}
	for m := range e.specErrors {
		out = append(out, m)
	}
	sort.Strings(out)
	return out
}
