package main

// Assumed contracts of library functions (the trusted base; every model used in a run is listed in the evidence).

import (
	"fmt"
	"go/token"
	"go/types"
	"strings"

	"golang.org/x/tools/go/ssa"
)

type libModel func(e *Engine, st *State, fr *Frame, args []Val, resT types.Type, pos token.Pos, ins ssa.Instruction) Val
type ifaceModel func(e *Engine, st *State, fr *Frame, recv Val, args []Val, resT types.Type, pos token.Pos, ins ssa.Instruction) Val

var libModels map[string]libModel
var ifaceModels map[string]ifaceModel

var tString = types.Typ[types.String]
var tInt = types.Typ[types.Int]
var tBool = types.Typ[types.Bool]

func used(e *Engine, name string) { e.usedLibModels[name] = true }

// contentOf abstracts the current contents of a byte slice into a Str value (length + array), so that
// uninterpreted library functions can be functions of the contents.
func (e *Engine) contentOf(st *State, b Val) string {
	if sortOf(b.T) == "Str" {
		return b.S
	}
	return e.bytesToString(st, b, tString).S
}

func nonNilError(st *State, prefix string, t types.Type) Val {
	v := st.freshVal(prefix, t)
	st.assume(not(eq(ifTyp(v.S), "0")))
	return v
}

func tupleOf(resT types.Type, vals ...Val) Val { return Val{T: resT, Tup: vals} }

func resTypeAt(resT types.Type, i int) types.Type {
	if t, ok := resT.(*types.Tuple); ok {
		return t.At(i).Type()
	}
	return resT
}

// pureStr: result string is an uninterpreted function of the argument contents.
func uninterpStr(e *Engine, st *State, fname string, args ...string) string {
	var sorts []string
	for range args {
		sorts = append(sorts, "Str")
	}
	reg.declareFun(fname, sorts, "Str")
	return "(" + fname + " " + strings.Join(args, " ") + ")"
}

func init() {
	libModels = map[string]libModel{}
	ifaceModels = map[string]ifaceModel{}

	fresh := func(name string) libModel {
		return func(e *Engine, st *State, fr *Frame, args []Val, resT types.Type, pos token.Pos, ins ssa.Instruction) Val {
			used(e, name+": total, result unconstrained, no effect on verified state")
			return e.freshResult(st, "lib", resT)
		}
	}
	noop := func(name string) libModel {
		return func(e *Engine, st *State, fr *Frame, args []Val, resT types.Type, pos token.Pos, ins ssa.Instruction) Val {
			used(e, name+": returns, no effect on verified state")
			return e.freshResult(st, "lib", resT)
		}
	}
	// fmt -------------------------------------------------------------------------------
	libModels["fmt.Sprintf"] = fresh("fmt.Sprintf")
	libModels["fmt.Sprint"] = fresh("fmt.Sprint")
	libModels["fmt.Printf"] = fresh("fmt.Printf")
	libModels["fmt.Println"] = fresh("fmt.Println")
	libModels["fmt.Errorf"] = func(e *Engine, st *State, fr *Frame, args []Val, resT types.Type, pos token.Pos, ins ssa.Instruction) Val {
		used(e, "fmt.Errorf: returns a non-nil error")
		return nonNilError(st, "errorf", resT)
	}
	libModels["errors.New"] = libModels["fmt.Errorf"]
	// encoding/hex ------------------------------------------------------------------------
	libModels["encoding/hex.EncodeToString"] = func(e *Engine, st *State, fr *Frame, args []Val, resT types.Type, pos token.Pos, ins ssa.Instruction) Val {
		used(e, "encoding/hex.EncodeToString: total, len(result) = 2*len(src), result is a function of the contents")
		c := e.contentOf(st, args[0])
		r := uninterpStr(e, st, "lib!hex", c)
		v := st.freshVal("hex", resT)
		st.assume(eq(v.S, r))
		st.assume(eq(strLen(v.S), fmt.Sprintf("(* 2 %s)", slLen(args[0].S))))
		return v
	}
	libModels["(*encoding/base64.Encoding).EncodeToString"] = fresh("base64.Encoding.EncodeToString")
	// crypto/sha256 -----------------------------------------------------------------------
	libModels["crypto/sha256.Sum256"] = func(e *Engine, st *State, fr *Frame, args []Val, resT types.Type, pos token.Pos, ins ssa.Instruction) Val {
		used(e, "crypto/sha256.Sum256: total, deterministic function of the contents")
		c := e.contentOf(st, args[0])
		reg.declareFun("lib!sha256arr", []string{"Str"}, "(Array Int Int)")
		v := st.freshVal("sum256", resT)
		st.assume(eq(v.S, "(lib!sha256arr "+c+")"))
		st.assume(fmt.Sprintf("(forall ((i Int)) (! (and (<= 0 (select %s i)) (< (select %s i) 256)) :pattern ((select %s i))))", v.S, v.S, v.S))
		// the 32 bytes are the digest string that sha256.New/Write/Sum and the contract builtin sha256() denote
		reg.declareFun("lib!digest", []string{"Str", "Str"}, "Str")
		dig := fmt.Sprintf("(lib!digest %s %s)", strLit("sha256"), c)
		reg.declareFun("content!uint8", []string{"(Array Int Int)", "Int", "Int"}, "Str")
		st.assume(eq("(s.len "+dig+")", "32"))
		st.assume(eq(fmt.Sprintf("(content!uint8 %s 0 32)", v.S), dig))
		st.assume(fmt.Sprintf("(forall ((i Int)) (! (=> (and (<= 0 i) (< i 32)) (= (select %s i) (select (s.arr %s) i))) :pattern ((select %s i))))", v.S, dig, v.S))
		return v
	}
	libModels["crypto/sha256.New"] = func(e *Engine, st *State, fr *Frame, args []Val, resT types.Type, pos token.Pos, ins ssa.Instruction) Val {
		used(e, "crypto/sha256.New: returns a non-nil hash.Hash whose state is the empty byte sequence")
		return e.newHasher(st, resT, "sha256", emptyStr)
	}
	libModels["crypto/hmac.New"] = func(e *Engine, st *State, fr *Frame, args []Val, resT types.Type, pos token.Pos, ins ssa.Instruction) Val {
		used(e, "crypto/hmac.New: returns a non-nil hash.Hash keyed by the contents of key, state empty")
		k := e.contentOf(st, args[1])
		kind := uninterpStr(e, st, "lib!hmackey", k)
		_ = kind
		return e.newHasher(st, resT, "hmac", k)
	}
	ifaceModels["hash.Hash.Write"] = func(e *Engine, st *State, fr *Frame, recv Val, args []Val, resT types.Type, pos token.Pos, ins ssa.Instruction) Val {
		used(e, "hash.Hash.Write: appends the bytes to the hash state (ghost byte sequence), never fails")
		e.hasherAppend(st, recv, args[0])
		n := Val{S: slLen(args[0].S), T: tInt}
		return tupleOf(resT, n, Val{S: nilIface, T: resTypeAt(resT, 1)})
	}
	ifaceModels["hash.Hash.Sum"] = func(e *Engine, st *State, fr *Frame, recv Val, args []Val, resT types.Type, pos token.Pos, ins ssa.Instruction) Val {
		used(e, "hash.Hash.Sum(nil): fresh 32-byte slice, deterministic function of (key, bytes written); Sum(b) for b != nil is not modelled")
		return e.hasherSum(st, recv, args[0], resT)
	}
	ifaceModels["hash.Hash.Reset"] = func(e *Engine, st *State, fr *Frame, recv Val, args []Val, resT types.Type, pos token.Pos, ins ssa.Instruction) Val {
		used(e, "hash.Hash.Reset: state becomes the empty byte sequence")
		hn, hs := "L!hash!data", "(Array Int Str)"
		st.setHeap(hn, hs, store(st.heap(hn, hs), ifVal(recv.S), emptyStr))
		return Val{}
	}
	// bytes -------------------------------------------------------------------------------
	libModels["bytes.Equal"] = func(e *Engine, st *State, fr *Frame, args []Val, resT types.Type, pos token.Pos, ins ssa.Instruction) Val {
		used(e, "bytes.Equal: true iff lengths and contents are equal")
		a := e.contentOf(st, args[0])
		b := e.contentOf(st, args[1])
		return Val{S: eq(a, b), T: tBool}
	}
	// sort --------------------------------------------------------------------------------
	libModels["sort.Sort"] = func(e *Engine, st *State, fr *Frame, args []Val, resT types.Type, pos token.Pos, ins ssa.Instruction) Val {
		used(e, "sort.Sort on a slice-backed sort.Interface with Less = '<' on the elements: elements become a sorted permutation of the old ones (same element set, same multiset size), nothing else changes")
		e.modelSort(st, fr, args[0], pos, ins)
		return Val{}
	}
	// sync/atomic ---------------------------------------------------------------------------
	for _, n := range []string{"Uint32", "Uint64", "Int32", "Int64"} {
		n := n
		libModels["sync/atomic.Load"+n] = func(e *Engine, st *State, fr *Frame, args []Val, resT types.Type, pos token.Pos, ins ssa.Instruction) Val {
			used(e, "sync/atomic.Load*: atomic read of the cell")
			e.atomicAccess(st, fr, args[0], pos, ins)
			v := e.loadPtr(st, args[0])
			v.T = resT
			return v
		}
		libModels["sync/atomic.Store"+n] = func(e *Engine, st *State, fr *Frame, args []Val, resT types.Type, pos token.Pos, ins ssa.Instruction) Val {
			used(e, "sync/atomic.Store*: atomic write of the cell")
			e.atomicAccess(st, fr, args[0], pos, ins)
			e.storePtr(st, args[0], args[1])
			return Val{}
		}
		libModels["sync/atomic.Add"+n] = func(e *Engine, st *State, fr *Frame, args []Val, resT types.Type, pos token.Pos, ins ssa.Instruction) Val {
			used(e, "sync/atomic.Add*: atomic add, returns the new value (wrapping)")
			e.atomicAccess(st, fr, args[0], pos, ins)
			v := e.loadPtr(st, args[0])
			nv := Val{S: wrap("(+ "+v.S+" "+args[1].S+")", resT, true), T: resT}
			e.storePtr(st, args[0], nv)
			return nv
		}
		libModels["sync/atomic.CompareAndSwap"+n] = func(e *Engine, st *State, fr *Frame, args []Val, resT types.Type, pos token.Pos, ins ssa.Instruction) Val {
			used(e, "sync/atomic.CompareAndSwap*: atomic compare-and-swap")
			e.atomicAccess(st, fr, args[0], pos, ins)
			v := e.loadPtr(st, args[0])
			ok := eq(v.S, args[1].S)
			e.storePtr(st, args[0], Val{S: ite(ok, args[2].S, v.S), T: v.T})
			return Val{S: ok, T: tBool}
		}
	}
	// time ----------------------------------------------------------------------------------
	for _, n := range []string{"time.Now", "time.Since", "time.Unix", "(time.Time).Add", "(time.Time).Before", "(time.Time).After", "(time.Time).Unix", "(time.Time).Sub",
		"(time.Duration).Seconds", "(time.Duration).String", "time.NewTimer", "time.NewTicker", "time.Sleep", "(*time.Timer).Stop", "(*time.Ticker).Stop", "time.After"} {
		libModels[n] = fresh(n)
	}
	libModels["time.NewTicker"] = func(e *Engine, st *State, fr *Frame, args []Val, resT types.Type, pos token.Pos, ins ssa.Instruction) Val {
		used(e, "time.NewTicker: returns a non-nil ticker (panics for d <= 0: obligation)")
		name := e.siteName(st, fr, "panic", pos, ins)
		st.check("panic", name, fmt.Sprintf("(> %s 0)", args[0].S), pos)
		v := e.freshResult(st, "ticker", resT)
		st.assume(fmt.Sprintf("(> %s 0)", v.S))
		return v
	}
	libModels["time.NewTimer"] = func(e *Engine, st *State, fr *Frame, args []Val, resT types.Type, pos token.Pos, ins ssa.Instruction) Val {
		used(e, "time.NewTimer: returns a non-nil timer")
		v := e.freshResult(st, "timer", resT)
		st.assume(fmt.Sprintf("(> %s 0)", v.S))
		return v
	}
	// context -------------------------------------------------------------------------------
	libModels["context.WithCancel"] = func(e *Engine, st *State, fr *Frame, args []Val, resT types.Type, pos token.Pos, ins ssa.Instruction) Val {
		used(e, "context.WithCancel: returns a non-nil context and a non-nil cancel function (panics on nil parent: obligation)")
		name := e.siteName(st, fr, "panic", pos, ins)
		st.check("panic", name, not(eq(ifTyp(args[0].S), "0")), pos)
		v := e.freshResult(st, "ctx", resT)
		st.assume(not(eq(ifTyp(v.Tup[0].S), "0")))
		st.assume(fmt.Sprintf("(> %s 0)", v.Tup[1].S))
		return v
	}
	ifaceModels["context.Context.Done"] = func(e *Engine, st *State, fr *Frame, recv Val, args []Val, resT types.Type, pos token.Pos, ins ssa.Instruction) Val {
		used(e, "context.Context.Done/Err/Deadline: total, no effect; once a receive from Done() has succeeded on a path, Err() of that context is non-nil")
		ch := e.freshResult(st, "done", resT)
		if st.doneChan == nil {
			st.doneChan = map[string]string{}
		}
		st.doneChan[ch.S] = recv.S
		return ch
	}
	ifaceModels["context.Context.Err"] = func(e *Engine, st *State, fr *Frame, recv Val, args []Val, resT types.Type, pos token.Pos, ins ssa.Instruction) Val {
		used(e, "context.Context.Done/Err/Deadline: total, no effect; once a receive from Done() has succeeded on a path, Err() of that context is non-nil")
		v := e.freshResult(st, "ctxerr", resT)
		if st.ctxDone[recv.S] {
			st.assume(not(eq(ifTyp(v.S), "0")))
		}
		return v
	}
	ifaceModels["context.Context.Deadline"] = ifaceModels["context.Context.Done"]
	ifaceModels["error.Error"] = func(e *Engine, st *State, fr *Frame, recv Val, args []Val, resT types.Type, pos token.Pos, ins ssa.Instruction) Val {
		used(e, "error.Error: total, no effect")
		return e.freshResult(st, "errstr", resT)
	}
	// encoding/binary -----------------------------------------------------------------------
	leGet := func(n int, big bool) libModel {
		return func(e *Engine, st *State, fr *Frame, args []Val, resT types.Type, pos token.Pos, ins ssa.Instruction) Val {
			used(e, "encoding/binary.{Little,Big}Endian.UintN/PutUintN: arithmetic on the first N bytes; panics (index) if the slice is shorter")
			b := args[len(args)-1]
			name := e.siteName(st, fr, "index", pos, ins)
			st.check("index", name, fmt.Sprintf("(>= %s %d)", slLen(b.S), n), pos)
			et := b.T.Underlying().(*types.Slice).Elem()
			hn, hs := elemHeapName(et)
			h := st.heap(hn, hs)
			var parts []string
			for i := 0; i < n; i++ {
				sh := i
				if big {
					sh = n - 1 - i
				}
				by := sel(sel(h, slRef(b.S)), ix(slOff(b.S), itoa(int64(i))))
				st.assume(rangePred(by, et))
				parts = append(parts, fmt.Sprintf("(* %s %s)", by, pow256(sh)))
			}
			return Val{S: "(+ " + strings.Join(parts, " ") + ")", T: resT}
		}
	}
	lePut := func(n int, big bool) libModel {
		return func(e *Engine, st *State, fr *Frame, args []Val, resT types.Type, pos token.Pos, ins ssa.Instruction) Val {
			used(e, "encoding/binary.{Little,Big}Endian.UintN/PutUintN: arithmetic on the first N bytes; panics (index) if the slice is shorter")
			b, v := args[len(args)-2], args[len(args)-1]
			name := e.siteName(st, fr, "index", pos, ins)
			st.check("index", name, fmt.Sprintf("(>= %s %d)", slLen(b.S), n), pos)
			et := b.T.Underlying().(*types.Slice).Elem()
			hn, hs := elemHeapName(et)
			h := st.heap(hn, hs)
			row := sel(h, slRef(b.S))
			for i := 0; i < n; i++ {
				sh := i
				if big {
					sh = n - 1 - i
				}
				row = store(row, ix(slOff(b.S), itoa(int64(i))), fmt.Sprintf("(mod (div %s %s) 256)", v.S, pow256(sh)))
			}
			st.setHeap(hn, hs, store(h, slRef(b.S), row))
			return Val{}
		}
	}
	libModels["(encoding/binary.littleEndian).Uint16"] = leGet(2, false)
	libModels["(encoding/binary.littleEndian).Uint32"] = leGet(4, false)
	libModels["(encoding/binary.littleEndian).Uint64"] = leGet(8, false)
	libModels["(encoding/binary.bigEndian).Uint16"] = leGet(2, true)
	libModels["(encoding/binary.bigEndian).Uint32"] = leGet(4, true)
	libModels["(encoding/binary.bigEndian).Uint64"] = leGet(8, true)
	libModels["(encoding/binary.littleEndian).PutUint16"] = lePut(2, false)
	libModels["(encoding/binary.littleEndian).PutUint32"] = lePut(4, false)
	libModels["(encoding/binary.littleEndian).PutUint64"] = lePut(8, false)
	libModels["(encoding/binary.bigEndian).PutUint16"] = lePut(2, true)
	libModels["(encoding/binary.bigEndian).PutUint32"] = lePut(4, true)
	libModels["(encoding/binary.bigEndian).PutUint64"] = lePut(8, true)
	// io ------------------------------------------------------------------------------------
	libModels["io.ReadFull"] = func(e *Engine, st *State, fr *Frame, args []Val, resT types.Type, pos token.Pos, ins ssa.Instruction) Val {
		used(e, "io.ReadFull: overwrites the buffer contents arbitrarily; err == nil iff n == len(buf); consumes bytes of the ghost stream (see stream model)")
		return e.modelReadFull(st, fr, args[0], args[1], resT, pos, ins)
	}
	// strings.Builder -------------------------------------------------------------------------
	libModels["(*strings.Builder).WriteString"] = fresh("strings.Builder.WriteString")
	libModels["(*strings.Builder).String"] = fresh("strings.Builder.String")
	// sync: see monitors.go (registered there)
	_ = noop
}

func pow256(k int) string {
	s := "1"
	for i := 0; i < k; i++ {
		s = mulDec(s, 256)
	}
	return s
}

func mulDec(s string, m int) string {
	// small decimal multiply (avoids big imports)
	digits := []byte(s)
	carry := 0
	for i := len(digits) - 1; i >= 0; i-- {
		v := int(digits[i]-'0')*m + carry
		digits[i] = byte('0' + v%10)
		carry = v / 10
	}
	for carry > 0 {
		digits = append([]byte{byte('0' + carry%10)}, digits...)
		carry /= 10
	}
	return string(digits)
}

// hashers: ghost state keyed by the object reference: kind/key and the byte sequence written so far.
func (e *Engine) newHasher(st *State, resT types.Type, kind string, key string) Val {
	r := st.freshRef("hasher_" + kind)
	tag := "900001"
	if kind != "sha256" {
		tag = "900002"
	}
	hn, hs := "L!hash!data", "(Array Int Str)"
	st.setHeap(hn, hs, store(st.heap(hn, hs), r, emptyStr))
	kn, ks := "L!hash!key", "(Array Int Str)"
	keyTerm := key
	if kind == "sha256" {
		keyTerm = strLit("sha256")
	} else {
		keyTerm = uninterpStr(e, st, "lib!hmackey", key)
	}
	st.setHeap(kn, ks, store(st.heap(kn, ks), r, keyTerm))
	if st.hashEmpty == nil {
		st.hashEmpty = map[string]bool{}
	}
	st.hashEmpty[r] = true
	return Val{S: mkIface(tag, r), T: resT}
}

func (e *Engine) hasherAppend(st *State, recv Val, data Val) {
	hn, hs := "L!hash!data", "(Array Int Str)"
	h := st.heap(hn, hs)
	cur := sel(h, ifVal(recv.S))
	d := e.contentOf(st, data)
	if st.hashEmpty[ifVal(recv.S)] {
		// first write into a fresh hasher: the state is exactly the written bytes
		delete(st.hashEmpty, ifVal(recv.S))
		st.setHeap(hn, hs, store(h, ifVal(recv.S), d))
		return
	}
	n := st.freshConst("hashcat", "Str")
	reg.declareFun("lib!concat", []string{"Str", "Str"}, "Str")
	st.assume(eq(n, fmt.Sprintf("(lib!concat %s %s)", cur, d)))
	la, lb := strLen(cur), strLen(d)
	st.assume(eq(strLen(n), add(la, lb)))
	st.assume(fmt.Sprintf("(forall ((i Int)) (! (= (select %s i) (ite (and (<= 0 i) (< i %s)) (select %s i) (ite (and (<= %s i) (< i (+ %s %s))) (select %s (- i %s)) 0))) :pattern ((select %s i))))",
		strArr(n), la, strArr(cur), la, la, lb, strArr(d), la, strArr(n)))
	st.setHeap(hn, hs, store(h, ifVal(recv.S), n))
}

func (e *Engine) hasherSum(st *State, recv Val, prefix Val, resT types.Type) Val {
	hn, hs := "L!hash!data", "(Array Int Str)"
	kn, ks := "L!hash!key", "(Array Int Str)"
	data := sel(st.heap(hn, hs), ifVal(recv.S))
	key := sel(st.heap(kn, ks), ifVal(recv.S))
	reg.declareFun("lib!digest", []string{"Str", "Str"}, "Str")
	dig := fmt.Sprintf("(lib!digest %s %s)", key, data)
	// result: fresh slice of 32 bytes whose contents are the digest string (length 32)
	et := resT.Underlying().(*types.Slice).Elem()
	en, es := elemHeapName(et)
	r := st.freshRef("sum")
	arr := st.freshConst("sumarr", "(Array Int Int)")
	st.assume(fmt.Sprintf("(forall ((i Int)) (! (=> (and (<= 0 i) (< i 32)) (and (= (select %s i) (select (s.arr %s) i)) (<= 0 (select %s i)) (< (select %s i) 256))) :pattern ((select %s i))))", arr, dig, arr, arr, arr))
	st.assume(eq("(s.len "+dig+")", "32"))
	// the string of the returned bytes is the digest itself (so that string(sum) == digest(...) needs no extensionality)
	cfn := "content!" + tkey(et)
	reg.declareFun(cfn, []string{fmt.Sprintf("(Array Int %s)", sortOf(et)), "Int", "Int"}, "Str")
	st.assume(eq(fmt.Sprintf("(%s %s 0 32)", cfn, arr), dig))
	st.setHeap(en, es, store(st.heap(en, es), r, arr))
	cp := st.freshConst("sumcap", "Int")
	st.assume(fmt.Sprintf("(and (>= %s 32) (<= %s 64))", cp, cp))
	return Val{S: mkSlice(r, "0", "32", cp), T: resT}
}

func (e *Engine) modelReadFull(st *State, fr *Frame, reader, buf Val, resT types.Type, pos token.Pos, ins ssa.Instruction) Val {
	e.havocReachable(st, buf)
	n := st.freshVal("readn", tInt)
	errT := resTypeAt(resT, 1)
	er := st.freshVal("readerr", errT)
	st.assume(fmt.Sprintf("(and (<= 0 %s) (<= %s %s))", n.S, n.S, slLen(buf.S)))
	st.assume(eq(eq(ifTyp(er.S), "0"), eq(n.S, slLen(buf.S))))
	// contents read are bytes
	et := buf.T.Underlying().(*types.Slice).Elem()
	hn, hs := elemHeapName(et)
	h := st.heap(hn, hs)
	st.assume(fmt.Sprintf("(forall ((i Int)) (! (and (<= 0 (select (select %s %s) i)) (< (select (select %s %s) i) 256)) :pattern ((select (select %s %s) i))))", h, slRef(buf.S), h, slRef(buf.S), h, slRef(buf.S)))
	e.streamRead(st, fr, reader, buf, n, er)
	return tupleOf(resT, n, er)
}

// modelSort: argument is an interface holding a slice value (named slice type with Less = <).
func (e *Engine) modelSort(st *State, fr *Frame, x Val, pos token.Pos, ins ssa.Instruction) {
	// find the boxed slice: the argument was produced by MakeInterface of a slice-typed value on this path
	mi := e.findMakeInterface(fr, ins)
	if mi == nil {
		e.unmodelled["sort.Sort on a non-slice sort.Interface"] = true
		return
	}
	sv := e.val(st, fr, mi.X)
	slt, ok := sv.T.Underlying().(*types.Slice)
	if !ok {
		e.unmodelled["sort.Sort on a non-slice sort.Interface"] = true
		return
	}
	hn, hs := elemHeapName(slt.Elem())
	h := st.heap(hn, hs)
	oldrow := sel(h, slRef(sv.S))
	row := st.freshConst("sorted", fmt.Sprintf("(Array Int %s)", sortOf(slt.Elem())))
	off, ln := slOff(sv.S), slLen(sv.S)
	in := func(i string) string { return fmt.Sprintf("(and (<= %s %s) (< %s (+ %s %s)))", off, i, i, off, ln) }
	// outside the slice window nothing changes
	st.assume(fmt.Sprintf("(forall ((i Int)) (! (=> (not %s) (= (select %s i) (select %s i))) :pattern ((select %s i))))", in("i"), row, oldrow, row))
	// sorted (relative indices)
	st.assume(fmt.Sprintf("(forall ((i Int) (j Int)) (! (=> (and (<= 0 i) (<= i j) (< j %s)) (<= (select %s %s) (select %s %s))) :pattern ((select %s %s) (select %s %s))))",
		ln, row, ix(off, "i"), row, ix(off, "j"), row, ix(off, "i"), row, ix(off, "j")))
	if sortOf(slt.Elem()) == "Int" {
		// a permutation keeps the element set (valid fact; saves an induction)
		reg.declareFun("elems!Int", []string{"(Array Int Int)", "Int", "Int"}, "(Array Int Bool)")
		e.assumptions["sort.Sort: elems(sorted) = elems(original) (trusted lemma about the ghost element set)"] = true
		st.assume(fmt.Sprintf("(= (elems!Int %s %s %s) (elems!Int %s %s %s))", row, off, ln, oldrow, off, ln))
	}
	// permutation: a bijection p on the relative indices 0..len-1
	p := fresh("perm")
	st.decls = append(st.decls, fmt.Sprintf("(declare-fun %s (Int) Int)", p), fmt.Sprintf("(declare-fun %s_inv (Int) Int)", p))
	rng := func(i string) string { return fmt.Sprintf("(and (<= 0 %s) (< %s %s))", i, i, ln) }
	st.assume(fmt.Sprintf("(forall ((i Int)) (! (=> %s (and %s (= (select %s %s) (select %s %s)) (= (%s_inv (%s i)) i))) :pattern ((%s i)) :pattern ((select %s %s))))",
		rng("i"), rng("("+p+" i)"), row, ix(off, "i"), oldrow, ix(off, "("+p+" i)"), p, p, p, row, ix(off, "i")))
	st.assume(fmt.Sprintf("(forall ((i Int)) (! (=> %s (and %s (= (select %s %s) (select %s %s)) (= (%s (%s_inv i)) i))) :pattern ((%s_inv i)) :pattern ((select %s %s))))",
		rng("i"), rng("("+p+"_inv i)"), row, ix(off, "("+p+"_inv i)"), oldrow, ix(off, "i"), p, p, p, oldrow, ix(off, "i")))
	st.setHeap(hn, hs, store(h, slRef(sv.S), row))
}

func (e *Engine) findMakeInterface(fr *Frame, ins ssa.Instruction) *ssa.MakeInterface {
	call, ok := ins.(ssa.CallInstruction)
	if !ok {
		return nil
	}
	for _, a := range call.Common().Args {
		if mi, ok := a.(*ssa.MakeInterface); ok {
			return mi
		}
	}
	return nil
}
