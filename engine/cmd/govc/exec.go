package main

// Forward symbolic execution of go/ssa (NaiveForm) functions.

import (
	"fmt"
	"os"
	"go/token"
	"go/types"
	"sort"
	"strings"

	"golang.org/x/tools/go/ssa"
)

const (
	maxPaths       = 6000
	maxInlineDepth = 12
	maxSteps       = 400000
)

type pathEnd struct{}

// ghost "visited" sets of map iterations (heap names IT!...)
var iterMapTerm = map[string]string{}
var iterKeyType = map[string]types.Type{}
var iterOf = map[*ssa.Range]string{}

// run executes the state until all paths starting from it have ended.
func (e *Engine) run(st *State) {
	defer func() {
		if os.Getenv("GOVC_TRACE") != "" && st.quiet == 0 && len(st.frames) > 0 {
			fr := st.top()
			ins := ""
			if fr.ip > 0 && fr.ip <= len(fr.block.Instrs) {
				ins = fr.block.Instrs[fr.ip-1].String()
			}
			fmt.Fprintf(os.Stderr, "PATH-END depth=%d fn=%s block=%d ip=%d last=%q\n", len(st.frames), fr.fn.Name(), fr.block.Index, fr.ip, ins)
		}
	}()
	for !st.dead {
		fr := st.top()
		if fr.ip >= len(fr.block.Instrs) {
			st.dead = true
			return
		}
		ins := fr.block.Instrs[fr.ip]
		st.steps++
		e.steps++
		if e.steps > maxSteps*20 || st.steps > maxSteps {
			e.budgetExceeded(st, "step-budget")
			st.dead = true
			return
		}
		var before map[string]string
		var held []heldLock
		if st.quiet == 0 {
			for _, l := range st.locks {
				if l.mon != nil && len(l.mon.Stable) > 0 {
					held = append(held, l)
				}
			}
			if len(held) > 0 {
				before = snapshotHeaps(st)
			}
		}
		e.step(st, fr, ins)
		if before != nil && !st.dead {
			e.stableStep(st, fr, held, before, ins)
		}
	}
}

func (e *Engine) budgetExceeded(st *State, what string) {
	if st.quiet > 0 {
		e.quietBudget = true
		return
	}
	o := &Obligation{Name: st.unit.Name + "#" + what, Kind: what, Func: st.unit.Name, Goal: "false", Status: "error", Output: what + " exceeded"}
	e.addObligation(o)
}

func (e *Engine) fork(st *State) *State {
	e.paths++
	if e.unitPaths++; e.unitPaths > maxPaths {
		if !e.unitBudgetHit {
			e.unitBudgetHit = true
			e.budgetExceeded(st, "path-budget")
		}
		return nil
	}
	return st.clone()
}

// operand value
func (e *Engine) val(st *State, fr *Frame, v ssa.Value) Val {
	switch x := v.(type) {
	case *ssa.Const:
		return Val{S: constTerm(x.Value, x.Type()), T: x.Type()}
	case *ssa.Function:
		return Val{S: e.funcID(x), T: x.Type(), C: &Closure{Fn: x}}
	case *ssa.Global:
		return Val{S: e.globalRef(x), T: x.Type(), A: &Addr{Kind: AGlobal, Glob: x, RootT: deref(x.Type()), T: deref(x.Type())}}
	case *ssa.Builtin:
		return Val{S: "0", T: x.Type()}
	case *ssa.FreeVar:
		for i, fv := range fr.fn.FreeVars {
			if fv == x {
				if i < len(fr.freeVars) {
					return fr.freeVars[i]
				}
			}
		}
		// unit is a closure verified on its own: free variables are unconstrained cells
		if r, ok := fr.regs[v]; ok {
			return r
		}
		r := st.freshVal("fv_"+x.Name(), x.Type())
		if p, ok := x.Type().Underlying().(*types.Pointer); ok {
			if _, isStruct := p.Elem().Underlying().(*types.Struct); !isStruct {
				r.A = &Addr{Kind: ACell, Base: r.S, RootT: p.Elem(), T: p.Elem()}
			}
			st.assume(fmt.Sprintf("(> %s 0)", r.S))
			st.assumeAllocated(r.S, x.Type())
		}
		fr.regs[v] = r
		return r
	}
	if r, ok := fr.regs[v]; ok {
		return r
	}
	if p, ok := v.(*ssa.Parameter); ok {
		panic(fmt.Sprintf("unbound parameter %s in %s", p.Name(), fr.fn.Name()))
	}
	panic(fmt.Sprintf("unbound value %s (%T) in %s", v.Name(), v, fr.fn.Name()))
}

func deref(t types.Type) types.Type {
	if p, ok := t.Underlying().(*types.Pointer); ok {
		return p.Elem()
	}
	return t
}

func (e *Engine) funcID(f *ssa.Function) string {
	k := f.String()
	if id, ok := e.funcIDs[k]; ok {
		return itoa(int64(id))
	}
	id := 1000 + len(e.funcIDs)
	e.funcIDs[k] = id
	return itoa(int64(id))
}

func (e *Engine) globalRef(g *ssa.Global) string {
	k := g.String()
	if id, ok := e.globalIDs[k]; ok {
		return itoa(int64(id))
	}
	id := 100 + len(e.globalIDs)
	e.globalIDs[k] = id
	return itoa(int64(id))
}

// addrOf returns the address denoted by a pointer value.
func (e *Engine) addrOf(st *State, p Val) *Addr {
	if p.A != nil {
		return p.A
	}
	pt, ok := p.T.Underlying().(*types.Pointer)
	if !ok {
		panic("addrOf: not a pointer: " + p.T.String())
	}
	// pointer to struct: whole-struct address = all fields at ref; represented as ACell over struct sort is wrong,
	// so whole-struct loads/stores are expanded field-wise by loadPtr/storePtr.
	return &Addr{Kind: ACell, Base: p.S, RootT: pt.Elem(), T: pt.Elem()}
}

func isHeapStruct(t types.Type) (*types.Struct, bool) {
	s, ok := t.Underlying().(*types.Struct)
	return s, ok
}

// loadPtr loads *p.
func (e *Engine) loadPtr(st *State, p Val) Val {
	a := e.addrOf(st, p)
	if a.Kind == ACell && len(a.Path) == 0 {
		if s, ok := isHeapStruct(a.T); ok {
			// whole struct value from the field heaps
			name := reg.structSort(s, typeHint(a.T))
			if s.NumFields() == 0 {
				return Val{S: "mk_" + name, T: a.T}
			}
			var fs []string
			for i := 0; i < s.NumFields(); i++ {
				hn, hs := fieldHeapName(a.T, s, i)
				fs = append(fs, sel(st.heap(hn, hs), a.Base))
			}
			return Val{S: fmt.Sprintf("(mk_%s %s)", name, strings.Join(fs, " ")), T: a.T}
		}
		if at, ok := a.T.Underlying().(*types.Array); ok {
			hn, hs := elemHeapName(at.Elem())
			return Val{S: sel(st.heap(hn, hs), a.Base), T: a.T}
		}
	}
	return st.load(a)
}

func (e *Engine) storePtr(st *State, p Val, v Val) {
	a := e.addrOf(st, p)
	if a.Kind == ACell && len(a.Path) == 0 {
		if s, ok := isHeapStruct(a.T); ok {
			name := reg.structSort(s, typeHint(a.T))
			for i := 0; i < s.NumFields(); i++ {
				hn, hs := fieldHeapName(a.T, s, i)
				st.setHeap(hn, hs, store(st.heap(hn, hs), a.Base, fmt.Sprintf("(%s_f%d %s)", name, i, v.S)))
			}
			return
		}
		if at, ok := a.T.Underlying().(*types.Array); ok {
			hn, hs := elemHeapName(at.Elem())
			st.setHeap(hn, hs, store(st.heap(hn, hs), a.Base, v.S))
			return
		}
	}
	st.store(a, v)
}

// site naming ---------------------------------------------------------------------------

func (e *Engine) siteName(st *State, fr *Frame, kind string, pos token.Pos, ins ssa.Instruction) string {
	fn := fr.fn
	key := e.srcSnippet(fn, pos)
	if key == "" {
		key = fmt.Sprintf("b%d.i%d", fr.block.Index, fr.ip)
	}
	base := funcDisplayName(fn) + "#" + kind + "(" + key + ")"
	// occurrence index among sites of the same function/kind/snippet, by instruction identity
	k := siteKey{fn, kind, key}
	lst := e.siteOcc[k]
	idx := -1
	for i, x := range lst {
		if x == ins {
			idx = i
			break
		}
	}
	if idx < 0 {
		// order occurrences by position in the function to stay deterministic
		lst = append(lst, ins)
		e.siteOcc[k] = lst
		idx = len(lst) - 1
	}
	if idx > 0 {
		base += fmt.Sprintf("/%d", idx+1)
	}
	if fn != st.unit.Fn {
		base = st.unit.Name + ">" + base
	}
	return base
}

type siteKey struct {
	fn   *ssa.Function
	kind string
	key  string
}

func funcDisplayName(fn *ssa.Function) string {
	name := fn.Name()
	if fn.Signature.Recv() != nil {
		rt := fn.Signature.Recv().Type()
		ptr := ""
		if p, ok := rt.(*types.Pointer); ok {
			rt = p.Elem()
			ptr = "*"
		}
		if n, ok := rt.(*types.Named); ok {
			name = "(" + ptr + n.Obj().Name() + ")." + fn.Name()
		}
	}
	if fn.Parent() != nil {
		name = funcDisplayName(fn.Parent()) + "$" + strings.TrimPrefix(fn.Name(), fn.Parent().Name()+"$")
	}
	pkg := ""
	if fn.Pkg != nil {
		pkg = fn.Pkg.Pkg.Name() + "."
	} else if fn.Parent() != nil {
		return name
	}
	if fn.Parent() != nil {
		return name
	}
	return pkg + name
}

// ---------------------------------------------------------------------------------------

func (e *Engine) step(st *State, fr *Frame, ins ssa.Instruction) {
	fr.ip++
	switch x := ins.(type) {
	case *ssa.DebugRef:
		return
	case *ssa.Alloc:
		e.execAlloc(st, fr, x)
	case *ssa.Store:
		p := e.val(st, fr, x.Addr)
		v := e.val(st, fr, x.Val)
		e.nilCheck(st, fr, p, x.Pos(), ins)
		e.lockCheckAddr(st, fr, p, true, x.Pos(), ins)
		e.storePtr(st, p, v)
		e.storeHook(st, fr, x, v)
	case *ssa.UnOp:
		e.execUnOp(st, fr, x)
	case *ssa.BinOp:
		a, b := e.val(st, fr, x.X), e.val(st, fr, x.Y)
		fr.regs[x] = e.binop(st, fr, x.Op, a, b, x.Type(), x.Pos(), ins)
	case *ssa.FieldAddr:
		p := e.val(st, fr, x.X)
		e.nilCheck(st, fr, p, x.Pos(), ins)
		fr.regs[x] = e.fieldAddr(st, p, x.Field, x.Type())
	case *ssa.Field:
		s := e.val(st, fr, x.X)
		su := s.T.Underlying().(*types.Struct)
		name := reg.structSort(su, typeHint(s.T))
		fr.regs[x] = Val{S: fmt.Sprintf("(%s_f%d %s)", name, x.Field, s.S), T: x.Type()}
	case *ssa.IndexAddr:
		e.execIndexAddr(st, fr, x)
	case *ssa.Index:
		e.execIndex(st, fr, x)
	case *ssa.Lookup:
		e.execLookup(st, fr, x)
	case *ssa.Slice:
		e.execSlice(st, fr, x)
	case *ssa.Convert:
		fr.regs[x] = e.convert(st, e.val(st, fr, x.X), x.Type())
	case *ssa.ChangeType:
		v := e.val(st, fr, x.X)
		v.T = x.Type()
		fr.regs[x] = v
	case *ssa.ChangeInterface:
		v := e.val(st, fr, x.X)
		v.T = x.Type()
		fr.regs[x] = v
	case *ssa.MakeInterface:
		fr.regs[x] = e.makeInterface(st, e.val(st, fr, x.X), x.Type())
	case *ssa.MakeClosure:
		fn := x.Fn.(*ssa.Function)
		c := &Closure{Fn: fn}
		for _, b := range x.Bindings {
			c.Bindings = append(c.Bindings, e.val(st, fr, b))
		}
		id := st.freshRef("clo_" + fn.Name())
		fr.regs[x] = Val{S: id, T: x.Type(), C: c}
		e.checkCaptured(st, fr, fn, c.Bindings, x)
	case *ssa.MakeMap:
		r := st.freshRef("map")
		m := x.Type().Underlying().(*types.Map)
		dn, vn, ds, vs, ks := mapHeapNames(m)
		st.setHeap(dn, ds, store(st.heap(dn, ds), r, fmt.Sprintf("((as const (Array %s Bool)) false)", ks)))
		_ = vn
		_ = vs
		fr.regs[x] = Val{S: r, T: x.Type()}
	case *ssa.MakeSlice:
		e.execMakeSlice(st, fr, x)
	case *ssa.MakeChan:
		fr.regs[x] = Val{S: st.freshRef("chan"), T: x.Type()}
	case *ssa.MapUpdate:
		e.execMapUpdate(st, fr, x)
	case *ssa.Call:
		e.execCall(st, fr, x.Common(), x, x.Pos(), ins)
	case *ssa.Extract:
		t := e.val(st, fr, x.Tuple)
		if x.Index < len(t.Tup) {
			fr.regs[x] = t.Tup[x.Index]
		} else {
			fr.regs[x] = st.freshVal("extract", x.Type())
		}
	case *ssa.TypeAssert:
		e.execTypeAssert(st, fr, x)
	case *ssa.If:
		c := e.val(st, fr, x.Cond)
		e.branch(st, fr, c.S)
	case *ssa.Jump:
		e.gotoBlock(st, fr, fr.block.Succs[0])
	case *ssa.Return:
		var rs []Val
		for _, r := range x.Results {
			rs = append(rs, e.val(st, fr, r))
		}
		e.returnHook(st, fr, rs, x.Pos(), x)
		e.doReturn(st, fr, rs, x.Pos())
	case *ssa.Panic:
		name := e.siteName(st, fr, "panic", x.Pos(), ins)
		st.oblige("panic", name, "false", x.Pos())
		st.dead = true
	case *ssa.Defer:
		d := deferred{call: x.Common(), pos: x.Pos()}
		if !x.Call.IsInvoke() {
			d.fn = e.val(st, fr, x.Call.Value)
		} else {
			d.fn = e.val(st, fr, x.Call.Value)
		}
		for _, a := range x.Call.Args {
			d.args = append(d.args, e.val(st, fr, a))
		}
		fr.defers = append(fr.defers, d)
	case *ssa.RunDefers:
		if n := len(fr.defers); n > 0 {
			d := fr.defers[n-1]
			fr.defers = fr.defers[:n-1]
			fr.ip-- // come back here until the stack is empty
			e.callValue(st, fr, d.call, d.fn, d.args, nil, d.pos, ins, true)
		}
	case *ssa.Go:
		// arguments are evaluated; the goroutine body is a separate unit. Nothing may be assumed about its effects.
		for _, a := range x.Call.Args {
			e.val(st, fr, a)
		}
		e.eventGo(st, fr, x)
	case *ssa.Send:
		e.val(st, fr, x.Chan)
		v := e.val(st, fr, x.X)
		e.eventSend(st, fr, x, v)
	case *ssa.Select:
		e.execSelect(st, fr, x)
	case *ssa.Range:
		m := e.val(st, fr, x.X)
		fr.regs[x] = Val{S: m.S, T: x.X.Type()} // iterator remembers the collection
		if mt, isMap := x.X.Type().Underlying().(*types.Map); isMap {
			e.lockCheckMap(st, fr, x.X, false, x.Pos(), x)
			// ghost set of the keys visited so far
			ks := sortOf(mt.Key())
			hn := fmt.Sprintf("IT!%s!%d", funcDisplayName(fr.fn), x.Pos())
			iterMapTerm[hn] = m.S
			iterKeyType[hn] = mt.Key()
			st.setHeap(hn, fmt.Sprintf("(Array %s Bool)", ks), fmt.Sprintf("((as const (Array %s Bool)) false)", ks))
			iterOf[x] = hn
		}
	case *ssa.Next:
		e.execNext(st, fr, x)
	case *ssa.Phi:
		for i, p := range fr.block.Preds {
			if p == fr.prev {
				fr.regs[x] = e.val(st, fr, x.Edges[i])
				return
			}
		}
		fr.regs[x] = st.freshVal("phi", x.Type())
	case *ssa.SliceToArrayPointer:
		fr.regs[x] = st.freshVal("s2a", x.Type())
	default:
		e.unsupported(st, fr, fmt.Sprintf("%T", ins), ins.Pos())
		if v, ok := ins.(ssa.Value); ok {
			fr.regs[v] = st.freshVal("unsupported", v.Type())
		}
	}
}

func (e *Engine) unsupported(st *State, fr *Frame, what string, pos token.Pos) {
	e.unsupportedSeen[funcDisplayName(fr.fn)+": "+what] = true
}

func (e *Engine) execAlloc(st *State, fr *Frame, x *ssa.Alloc) {
	et := deref(x.Type())
	_, isStruct := et.Underlying().(*types.Struct)
	at, isArray := et.Underlying().(*types.Array)
	switch {
	case isArray:
		r := st.freshRef("arr_" + x.Comment)
		hn, hs := elemHeapName(at.Elem())
		st.setHeap(hn, hs, store(st.heap(hn, hs), r, zeroTerm(et)))
		fr.regs[x] = Val{S: r, T: x.Type()}
	case x.Heap && isStruct:
		r := st.freshRef("new_" + x.Comment)
		s := et.Underlying().(*types.Struct)
		for i := 0; i < s.NumFields(); i++ {
			hn, hs := fieldHeapName(et, s, i)
			st.setHeap(hn, hs, store(st.heap(hn, hs), r, zeroTerm(s.Field(i).Type())))
		}
		fr.regs[x] = Val{S: r, T: x.Type()}
	case x.Heap:
		r := st.freshRef("cell_" + x.Comment)
		a := &Addr{Kind: ACell, Base: r, RootT: et, T: et}
		hn, hs := cellHeapName(et)
		st.setHeap(hn, hs, store(st.heap(hn, hs), r, zeroTerm(et)))
		fr.regs[x] = Val{S: r, T: x.Type(), A: a}
	default:
		a := &Addr{Kind: ALocal, Alloc: x, Frame: fr, RootT: et, T: et}
		fr.locals[x] = Val{S: zeroTerm(et), T: et}
		if st.lwrites != nil {
			// a fresh local inside a loop body is (re)initialised: not part of the loop-carried state
		}
		fr.regs[x] = Val{S: "0", T: x.Type(), A: a}
	}
}

func (e *Engine) fieldAddr(st *State, p Val, field int, resT types.Type) Val {
	pt := p.T.Underlying().(*types.Pointer)
	s := pt.Elem().Underlying().(*types.Struct)
	ft := s.Field(field).Type()
	if p.A != nil {
		// address inside a value stored elsewhere (local struct, nested struct field, array element)
		a := *p.A
		a.Path = append(append([]PathStep(nil), p.A.Path...), PathStep{Field: field, ST: s, STT: pt.Elem()})
		a.T = ft
		return Val{S: "0", T: resT, A: &a}
	}
	a := &Addr{Kind: AField, Base: p.S, ST: s, STT: pt.Elem(), Field: field, RootT: ft, T: ft}
	return Val{S: "0", T: resT, A: a}
}

func (e *Engine) nilCheck(st *State, fr *Frame, p Val, pos token.Pos, ins ssa.Instruction) {
	if p.A != nil {
		if p.A.Kind == ALocal || p.A.Kind == AGlobal {
			return
		}
		if p.A.Kind == AField || p.A.Kind == AElem {
			return // base was checked when the address was formed
		}
		if p.A.Kind == ACell && strings.Contains(p.A.Base, "cell_") {
			return
		}
	}
	if strings.HasPrefix(p.S, "new_") || strings.HasPrefix(p.S, "arr_") || strings.HasPrefix(p.S, "cell_") {
		return
	}
	name := e.siteName(st, fr, "nil-deref", pos, ins)
	st.check("nil-deref", name, fmt.Sprintf("(not (= %s 0))", p.S), pos)
}

func (e *Engine) execUnOp(st *State, fr *Frame, x *ssa.UnOp) {
	v := e.val(st, fr, x.X)
	switch x.Op {
	case token.MUL: // load
		e.nilCheck(st, fr, v, x.Pos(), x)
		e.lockCheckAddr(st, fr, v, false, x.Pos(), x)
		r := e.loadPtr(st, v)
		r.T = x.Type()
		fr.regs[x] = r
	case token.NOT:
		fr.regs[x] = Val{S: not(v.S), T: x.Type()}
	case token.SUB:
		if sortOf(x.Type()) == "Real" {
			fr.regs[x] = Val{S: "(- " + v.S + ")", T: x.Type()}
			return
		}
		fr.regs[x] = Val{S: wrap("(- "+v.S+")", x.Type(), true), T: x.Type()}
	case token.XOR:
		bits, signed, _ := intInfo(x.Type())
		if signed {
			fr.regs[x] = Val{S: "(- (- " + v.S + ") 1)", T: x.Type()}
		} else {
			fr.regs[x] = Val{S: fmt.Sprintf("(- %s 1 %s)", pow2tab[bits], v.S), T: x.Type()}
		}
	case token.ARROW: // channel receive
		e.eventRecv(st, fr, x, v)
		if x.CommaOk {
			t := x.Type().(*types.Tuple)
			fr.regs[x] = Val{T: x.Type(), Tup: []Val{st.freshVal("recv", t.At(0).Type()), st.freshVal("recvok", t.At(1).Type())}}
		} else {
			fr.regs[x] = st.freshVal("recv", x.Type())
		}
	default:
		e.unsupported(st, fr, "unop "+x.Op.String(), x.Pos())
		fr.regs[x] = st.freshVal("unop", x.Type())
	}
}

func (e *Engine) binop(st *State, fr *Frame, op token.Token, a, b Val, resT types.Type, pos token.Pos, ins ssa.Instruction) Val {
	sa := sortOf(a.T)
	res := func(s string) Val { return Val{S: s, T: resT} }
	switch op {
	case token.EQL, token.NEQ:
		var t string
		if sa == "Iface" || sortOf(b.T) == "Iface" {
			t = eq(a.S, b.S)
		} else {
			t = eq(a.S, b.S)
		}
		if _, isSlice := a.T.Underlying().(*types.Slice); isSlice {
			// only comparison with nil is legal
			other := b
			if a.S == nilSlice {
				other = a
				a = b
			}
			_ = other
			t = eq(slRef(a.S), "0")
		}
		if op == token.NEQ {
			t = not(t)
		}
		return res(t)
	}
	if sa == "Str" {
		switch op {
		case token.ADD:
			// concatenation: fresh string with the right length and contents
			n := st.freshConst("concat", "Str")
			la, lb := strLen(a.S), strLen(b.S)
			st.assume(eq(strLen(n), add(la, lb)))
			st.assume(fmt.Sprintf("(forall ((i Int)) (! (= (select %s i) (ite (and (<= 0 i) (< i %s)) (select %s i) (ite (and (<= %s i) (< i (+ %s %s))) (select %s (- i %s)) 0))) :pattern ((select %s i))))",
				strArr(n), la, strArr(a.S), la, la, lb, strArr(b.S), la, strArr(n)))
			return res(n)
		case token.LSS, token.LEQ, token.GTR, token.GEQ:
			reg.declareFun("strless", []string{"Str", "Str"}, "Bool")
			switch op {
			case token.LSS:
				return res(fmt.Sprintf("(strless %s %s)", a.S, b.S))
			case token.GTR:
				return res(fmt.Sprintf("(strless %s %s)", b.S, a.S))
			case token.LEQ:
				return res(fmt.Sprintf("(not (strless %s %s))", b.S, a.S))
			default:
				return res(fmt.Sprintf("(not (strless %s %s))", a.S, b.S))
			}
		}
	}
	if sa == "Bool" {
		switch op {
		case token.AND, token.LAND:
			return res(and(a.S, b.S))
		case token.OR, token.LOR:
			return res(or(a.S, b.S))
		}
	}
	if sa == "Real" {
		switch op {
		case token.ADD:
			return res("(+ " + a.S + " " + b.S + ")")
		case token.SUB:
			return res("(- " + a.S + " " + b.S + ")")
		case token.MUL:
			return res("(* " + a.S + " " + b.S + ")")
		case token.QUO:
			return res("(/ " + a.S + " " + b.S + ")")
		case token.LSS:
			return res("(< " + a.S + " " + b.S + ")")
		case token.LEQ:
			return res("(<= " + a.S + " " + b.S + ")")
		case token.GTR:
			return res("(> " + a.S + " " + b.S + ")")
		case token.GEQ:
			return res("(>= " + a.S + " " + b.S + ")")
		}
	}
	// integers
	switch op {
	case token.LSS:
		return res("(< " + a.S + " " + b.S + ")")
	case token.LEQ:
		return res("(<= " + a.S + " " + b.S + ")")
	case token.GTR:
		return res("(> " + a.S + " " + b.S + ")")
	case token.GEQ:
		return res("(>= " + a.S + " " + b.S + ")")
	case token.ADD:
		return res(wrap("(+ "+a.S+" "+b.S+")", resT, false))
	case token.SUB:
		_, signed, _ := intInfo(resT)
		return res(wrap("(- "+a.S+" "+b.S+")", resT, !signed))
	case token.MUL:
		return res(wrap("(* "+a.S+" "+b.S+")", resT, false))
	case token.QUO, token.REM:
		if fr != nil {
			name := e.siteName(st, fr, "div0", pos, ins)
			st.check("div0", name, not(eq(b.S, "0")), pos)
		}
		// Go truncates toward zero; SMT div/mod floor for positive divisor. Encode truncation.
		q := fmt.Sprintf("(ite (>= %s 0) (div %s %s) (- (div (- %s) %s)))", a.S, a.S, b.S, a.S, b.S)
		_, signed, _ := intInfo(a.T)
		if !signed {
			q = fmt.Sprintf("(div %s %s)", a.S, b.S)
		} else if isNonNegConst(b.S) {
			q = fmt.Sprintf("(ite (>= %s 0) (div %s %s) (- (div (- %s) %s)))", a.S, a.S, b.S, a.S, b.S)
		} else {
			// general signed division: truncation toward zero
			q = fmt.Sprintf("(ite (>= %s 0) (ite (> %s 0) (div %s %s) (- (div %s (- %s)))) (ite (> %s 0) (- (div (- %s) %s)) (div (- %s) (- %s))))",
				a.S, b.S, a.S, b.S, a.S, b.S, b.S, a.S, b.S, a.S, b.S)
		}
		if op == token.QUO {
			return res(wrap(q, resT, false))
		}
		return res(fmt.Sprintf("(- %s (* %s %s))", a.S, b.S, q))
	case token.SHL:
		bits, _, _ := intInfo(resT)
		if k, ok := smallConst(b.S); ok {
			if k >= int64(bits) {
				return res("0")
			}
			return res(wrap(fmt.Sprintf("(* %s %d)", a.S, int64(1)<<uint(k)), resT, true))
		}
		st.assume(fmt.Sprintf("(=> (and (<= 0 %s) (< %s 64)) (and (> (pow2 %s) 0) (=> (= %s 0) (= (pow2 %s) 1))))", b.S, b.S, b.S, b.S, b.S))
		return res(wrap(fmt.Sprintf("(* %s (pow2 %s))", a.S, b.S), resT, true))
	case token.SHR:
		if k, ok := smallConst(b.S); ok {
			_, signed, _ := intInfo(a.T)
			if k >= 63 {
				if signed {
					return res(fmt.Sprintf("(ite (< %s 0) (- 1) 0)", a.S))
				}
				if k >= 64 {
					return res("0")
				}
			}
			d := fmt.Sprintf("%d", uint64(1)<<uint(k))
			return res(fmt.Sprintf("(div %s %s)", a.S, d)) // floor division = arithmetic shift for negatives too
		}
		r := st.freshConst("shr", "Int")
		st.assume(fmt.Sprintf("(and (=> (>= %s 0) (and (<= 0 %s) (<= %s %s))) (=> (= %s 0) (= %s %s)))", a.S, r, r, a.S, b.S, r, a.S))
		return res(r)
	case token.AND:
		if k, ok := smallConst(b.S); ok {
			if k >= 0 && (k+1)&k == 0 { // mask 2^n-1
				_, signed, _ := intInfo(a.T)
				if !signed {
					return res(fmt.Sprintf("(mod %s %d)", a.S, k+1))
				}
			}
		}
		r := st.freshConst("band", "Int")
		st.assume(eq(r, fmt.Sprintf("(bitand %s %s)", a.S, b.S)))
		st.assume(fmt.Sprintf("(=> (and (>= %s 0) (>= %s 0)) (and (<= 0 %s) (<= %s %s) (<= %s %s)))", a.S, b.S, r, r, a.S, r, b.S))
		return res(r)
	case token.OR:
		r := st.freshConst("bor", "Int")
		st.assume(eq(r, fmt.Sprintf("(bitor %s %s)", a.S, b.S)))
		st.assume(fmt.Sprintf("(=> (and (>= %s 0) (>= %s 0)) (and (>= %s %s) (>= %s %s) (<= %s (+ %s %s))))", a.S, b.S, r, a.S, r, b.S, r, a.S, b.S))
		st.assumeTypeInv(r, resT)
		return res(r)
	case token.XOR:
		r := st.freshConst("bxor", "Int")
		st.assume(eq(r, fmt.Sprintf("(bitxor %s %s)", a.S, b.S)))
		st.assumeTypeInv(r, resT)
		return res(r)
	case token.AND_NOT:
		r := st.freshConst("bandnot", "Int")
		st.assumeTypeInv(r, resT)
		return res(r)
	}
	e.unsupported(st, fr, "binop "+op.String(), pos)
	return st.freshVal("binop", resT)
}

func isNonNegConst(s string) bool {
	k, ok := smallConst(s)
	return ok && k > 0
}

func smallConst(s string) (int64, bool) {
	if s == "" {
		return 0, false
	}
	var n int64
	for _, c := range s {
		if c < '0' || c > '9' {
			return 0, false
		}
		if n > 1<<40 {
			return 0, false
		}
		n = n*10 + int64(c-'0')
	}
	return n, true
}

func (e *Engine) convert(st *State, v Val, to types.Type) Val {
	from := v.T
	fs, ts := sortOf(from), sortOf(to)
	switch {
	case fs == "Int" && ts == "Int":
		if _, _, ok := intInfo(to); ok {
			if _, _, ok2 := intInfo(from); ok2 {
				return Val{S: convInt(v.S, from, to), T: to}
			}
		}
		return Val{S: v.S, T: to, A: v.A, C: v.C}
	case fs == "Int" && ts == "Real":
		return Val{S: "(to_real " + v.S + ")", T: to}
	case fs == "Real" && ts == "Int":
		// truncation toward zero
		return Val{S: wrap(fmt.Sprintf("(ite (>= %s 0.0) (to_int %s) (- (to_int (- %s))))", v.S, v.S, v.S), to, false), T: to}
	case fs == "Real" && ts == "Real":
		return Val{S: v.S, T: to}
	case fs == "Slice" && ts == "Str":
		return e.bytesToString(st, v, to)
	case fs == "Str" && ts == "Slice":
		return e.stringToBytes(st, v, to)
	case fs == "Str" && ts == "Str", fs == "Slice" && ts == "Slice":
		return Val{S: v.S, T: to}
	case fs == "Int" && ts == "Str":
		r := st.freshVal("runestr", to)
		return r
	}
	if fs == ts {
		return Val{S: v.S, T: to, A: v.A, C: v.C}
	}
	return st.freshVal("conv", to)
}

func convInt(term string, from, to types.Type) string {
	fb, fsn, _ := intInfo(from)
	tb, tsn, _ := intInfo(to)
	// value-preserving conversions need no wrapping
	if fsn == tsn && tb >= fb {
		return term
	}
	if !fsn && tsn && tb > fb {
		return term
	}
	if tb == 64 {
		// between 64-bit signed/unsigned: reinterpret
		return wrap(term, to, true)
	}
	return wrap(term, to, true)
}

func (e *Engine) bytesToString(st *State, v Val, to types.Type) Val {
	// string(b) is the application of an uninterpreted function to (backing row, offset, length): equal headers over
	// equal rows give equal strings by congruence; the defining axiom gives length and contents
	et := v.T.Underlying().(*types.Slice).Elem()
	hn, hs := elemHeapName(et)
	h := st.heap(hn, hs)
	fn := "content!" + tkey(et)
	reg.declareFun(fn, []string{fmt.Sprintf("(Array Int %s)", sortOf(et)), "Int", "Int"}, "Str")
	app := fmt.Sprintf("(%s (select %s %s) %s %s)", fn, h, slRef(v.S), slOff(v.S), slLen(v.S))
	n := st.freshConst("str", "Str")
	st.assume(eq(n, app))
	st.assume(eq(strLen(n), slLen(v.S)))
	st.assume(fmt.Sprintf("(forall ((i Int)) (! (= (select %s i) (ite (and (<= 0 i) (< i %s)) (select (select %s %s) %s) 0)) :pattern ((select %s i))))",
		strArr(n), slLen(v.S), h, slRef(v.S), ix(slOff(v.S), "i"), strArr(n)))
	return Val{S: n, T: to}
}

func (e *Engine) stringToBytes(st *State, v Val, to types.Type) Val {
	et := to.Underlying().(*types.Slice).Elem()
	hn, hs := elemHeapName(et)
	r := st.freshRef("s2b")
	ln := strLen(v.S)
	// Go allocates a fresh backing array holding exactly the bytes; for the empty string the result is an empty non-nil slice
	arr := st.freshConst("s2barr", fmt.Sprintf("(Array Int %s)", sortOf(et)))
	st.assume(fmt.Sprintf("(forall ((i Int)) (! (=> (and (<= 0 i) (< i %s)) (= (select %s i) (select %s i))) :pattern ((select %s i))))",
		ln, arr, strArr(v.S), arr))
	// the string of the new bytes is the original string (no extensionality needed later)
	cfn := "content!" + tkey(et)
	reg.declareFun(cfn, []string{fmt.Sprintf("(Array Int %s)", sortOf(et)), "Int", "Int"}, "Str")
	st.assume(eq(fmt.Sprintf("(%s %s 0 %s)", cfn, arr, ln), v.S))
	st.setHeap(hn, hs, store(st.heap(hn, hs), r, arr))
	cp := st.freshConst("s2bcap", "Int")
	st.assume(fmt.Sprintf("(and (>= %s %s) (<= %s 1099511627776))", cp, ln, cp))
	return Val{S: mkSlice(r, "0", ln, cp), T: to}
}

func (e *Engine) makeInterface(st *State, v Val, it types.Type) Val {
	tag := itoa(int64(typeTag(v.T)))
	switch v.T.Underlying().(type) {
	case *types.Pointer, *types.Map, *types.Chan, *types.Signature:
		return Val{S: mkIface(tag, v.S), T: it}
	case *types.Basic:
		if sortOf(v.T) == "Int" {
			// small ints are boxed too (keeps payload injective per type via box function)
		}
	}
	box, _ := boxFuns(v.T)
	return Val{S: mkIface(tag, fmt.Sprintf("(%s %s)", box, v.S)), T: it}
}

func (e *Engine) execTypeAssert(st *State, fr *Frame, x *ssa.TypeAssert) {
	v := e.val(st, fr, x.X)
	at := x.AssertedType
	var okTerm string
	var resVal Val
	if _, isIface := at.Underlying().(*types.Interface); isIface {
		// assertion to an interface type: succeeds iff dynamic type implements it; unknown statically -> uninterpreted
		reg.declareFun("implements", []string{"Int", "Int"}, "Bool")
		okTerm = and(not(eq(ifTyp(v.S), "0")), fmt.Sprintf("(implements %s %d)", ifTyp(v.S), typeTag(at)))
		if types.Identical(at.Underlying(), v.T.Underlying()) || types.AssignableTo(v.T, at) {
			okTerm = not(eq(ifTyp(v.S), "0"))
		}
		resVal = Val{S: v.S, T: at}
	} else {
		tag := itoa(int64(typeTag(at)))
		okTerm = eq(ifTyp(v.S), tag)
		switch at.Underlying().(type) {
		case *types.Pointer, *types.Map, *types.Chan, *types.Signature:
			resVal = Val{S: ifVal(v.S), T: at}
		default:
			_, unbox := boxFuns(at)
			resVal = Val{S: fmt.Sprintf("(%s %s)", unbox, ifVal(v.S)), T: at}
		}
	}
	if x.CommaOk {
		// on failure the value is the zero value
		rv := Val{S: ite(okTerm, resVal.S, zeroTerm(at)), T: at}
		fr.regs[x] = Val{T: x.Type(), Tup: []Val{rv, {S: okTerm, T: types.Typ[types.Bool]}}}
		return
	}
	name := e.siteName(st, fr, "type-assert", x.Pos(), x)
	st.check("type-assert", name, okTerm, x.Pos())
	if needsInv(at) {
		st.assumeTypeInv(resVal.S, at)
	}
	fr.regs[x] = resVal
}

func (e *Engine) branch(st *State, fr *Frame, cond string) {
	tb, fb := fr.block.Succs[0], fr.block.Succs[1]
	switch cond {
	case "true":
		e.gotoBlock(st, fr, tb)
		return
	case "false":
		e.gotoBlock(st, fr, fb)
		return
	}
	// syntactic pruning: the same test was already decided on this path
	nc := not(cond)
	for i := len(st.pc) - 1; i >= 0 && i >= len(st.pc)-400; i-- {
		if st.pc[i] == cond {
			e.gotoBlock(st, fr, tb)
			return
		}
		if st.pc[i] == nc {
			e.gotoBlock(st, fr, fb)
			return
		}
	}
	other := e.fork(st)
	if other != nil {
		ofr := other.top()
		other.assume(not(cond))
		other.trace = append(other.trace, fmt.Sprintf("%s:b%d->b%d", ofr.fn.Name(), ofr.block.Index, fb.Index))
		e.gotoBlock(other, ofr, fb)
		e.run(other)
	}
	st.assume(cond)
	st.trace = append(st.trace, fmt.Sprintf("%s:b%d->b%d", fr.fn.Name(), fr.block.Index, tb.Index))
	e.gotoBlock(st, fr, tb)
}

func (e *Engine) gotoBlock(st *State, fr *Frame, b *ssa.BasicBlock) {
	if st.stop != nil && len(st.frames) == st.stop.depth && !st.stop.blocks[b] {
		st.dead = true // discovery / candidate passes only look at the loop body
		return
	}
	fr.prev = fr.block
	fr.block = b
	fr.ip = 0
	if e.isLoopHeader(b) {
		e.atLoopHeader(st, fr, b)
	}
}

func (e *Engine) doReturn(st *State, fr *Frame, results []Val, pos token.Pos) {
	if st.stop != nil && len(st.frames) == st.stop.depth {
		st.dead = true
		return
	}
	if fr.onReturn != nil {
		fr.onReturn(st, results)
		if st.dead {
			return
		}
	}
	if len(st.frames) == 1 {
		e.unitReturn(st, fr, results, pos)
		st.dead = true
		return
	}
	st.frames = st.frames[:len(st.frames)-1]
	caller := st.top()
	if fr.retInto != nil {
		switch len(results) {
		case 0:
		case 1:
			r := results[0]
			caller.regs[fr.retInto] = r
		default:
			caller.regs[fr.retInto] = Val{T: fr.retInto.Type(), Tup: results}
		}
	}
}

// ---------------------------------------------------------------------------------------
// indexing, slicing

func (e *Engine) execIndexAddr(st *State, fr *Frame, x *ssa.IndexAddr) {
	base := e.val(st, fr, x.X)
	idx := e.val(st, fr, x.Index)
	name := func() string { return e.siteName(st, fr, "index", x.Pos(), x) }
	switch t := x.X.Type().Underlying().(type) {
	case *types.Slice:
		st.check("index", name(), fmt.Sprintf("(and (<= 0 %s) (< %s %s))", idx.S, idx.S, slLen(base.S)), x.Pos())
		a := &Addr{Kind: AElem, Base: slRef(base.S), Idx: ix(slOff(base.S), idx.S), RootT: t.Elem(), T: t.Elem()}
		fr.regs[x] = Val{S: "0", T: x.Type(), A: a}
	case *types.Pointer:
		at := t.Elem().Underlying().(*types.Array)
		e.nilCheck(st, fr, base, x.Pos(), x)
		st.check("index", name(), fmt.Sprintf("(and (<= 0 %s) (< %s %d))", idx.S, idx.S, at.Len()), x.Pos())
		if base.A != nil && (base.A.Kind != ACell || len(base.A.Path) > 0) {
			a := *base.A
			a.Path = append(append([]PathStep(nil), base.A.Path...), PathStep{Idx: idx.S, AT: at})
			a.T = at.Elem()
			fr.regs[x] = Val{S: "0", T: x.Type(), A: &a}
			return
		}
		a := &Addr{Kind: AElem, Base: base.S, Idx: idx.S, RootT: at.Elem(), T: at.Elem()}
		fr.regs[x] = Val{S: "0", T: x.Type(), A: a}
	default:
		e.unsupported(st, fr, "indexaddr on "+x.X.Type().String(), x.Pos())
		fr.regs[x] = st.freshVal("idxaddr", x.Type())
	}
}

func (e *Engine) execIndex(st *State, fr *Frame, x *ssa.Index) {
	base := e.val(st, fr, x.X)
	idx := e.val(st, fr, x.Index)
	name := e.siteName(st, fr, "index", x.Pos(), x)
	switch t := x.X.Type().Underlying().(type) {
	case *types.Basic: // string
		st.check("index", name, fmt.Sprintf("(and (<= 0 %s) (< %s %s))", idx.S, idx.S, strLen(base.S)), x.Pos())
		v := Val{S: sel(strArr(base.S), idx.S), T: x.Type()}
		st.assume(rangePred(v.S, x.Type()))
		fr.regs[x] = v
	case *types.Array:
		st.check("index", name, fmt.Sprintf("(and (<= 0 %s) (< %s %d))", idx.S, idx.S, t.Len()), x.Pos())
		fr.regs[x] = Val{S: sel(base.S, idx.S), T: x.Type()}
	default:
		fr.regs[x] = st.freshVal("index", x.Type())
	}
}

func (e *Engine) execSlice(st *State, fr *Frame, x *ssa.Slice) {
	base := e.val(st, fr, x.X)
	name := e.siteName(st, fr, "slice", x.Pos(), x)
	opt := func(v ssa.Value, def string) string {
		if v == nil {
			return def
		}
		return e.val(st, fr, v).S
	}
	switch t := x.X.Type().Underlying().(type) {
	case *types.Slice:
		lo := opt(x.Low, "0")
		hi := opt(x.High, slLen(base.S))
		mx := opt(x.Max, slCap(base.S))
		st.check("slice", name, fmt.Sprintf("(and (<= 0 %s) (<= %s %s) (<= %s %s) (<= %s %s))", lo, lo, hi, hi, mx, mx, slCap(base.S)), x.Pos())
		// slicing a nil slice gives nil
		fr.regs[x] = Val{S: mkSlice(slRef(base.S), add(slOff(base.S), lo), sub(hi, lo), sub(mx, lo)), T: x.Type()}
	case *types.Basic: // string
		lo := opt(x.Low, "0")
		hi := opt(x.High, strLen(base.S))
		st.check("slice", name, fmt.Sprintf("(and (<= 0 %s) (<= %s %s) (<= %s %s))", lo, lo, hi, hi, strLen(base.S)), x.Pos())
		if lo == "0" && x.High == nil {
			fr.regs[x] = Val{S: base.S, T: x.Type()}
			return
		}
		n := st.freshConst("substr", "Str")
		st.assume(eq(strLen(n), sub(hi, lo)))
		st.assume(fmt.Sprintf("(forall ((i Int)) (! (= (select %s i) (ite (and (<= 0 i) (< i (- %s %s))) (select %s (+ i %s)) 0)) :pattern ((select %s i))))",
			strArr(n), hi, lo, strArr(base.S), lo, strArr(n)))
		fr.regs[x] = Val{S: n, T: x.Type()}
	case *types.Pointer: // *array
		at := t.Elem().Underlying().(*types.Array)
		n := fmt.Sprintf("%d", at.Len())
		lo := opt(x.Low, "0")
		hi := opt(x.High, n)
		mx := opt(x.Max, n)
		e.nilCheck(st, fr, base, x.Pos(), x)
		st.check("slice", name, fmt.Sprintf("(and (<= 0 %s) (<= %s %s) (<= %s %s) (<= %s %s))", lo, lo, hi, hi, mx, mx, n), x.Pos())
		fr.regs[x] = Val{S: mkSlice(base.S, lo, sub(hi, lo), sub(mx, lo)), T: x.Type()}
	default:
		e.unsupported(st, fr, "slice of "+x.X.Type().String(), x.Pos())
		fr.regs[x] = st.freshVal("slice", x.Type())
	}
}

func (e *Engine) execMakeSlice(st *State, fr *Frame, x *ssa.MakeSlice) {
	ln := e.val(st, fr, x.Len)
	cp := e.val(st, fr, x.Cap)
	name := e.siteName(st, fr, "make-size", x.Pos(), x)
	st.check("make-size", name, fmt.Sprintf("(and (<= 0 %s) (<= %s %s))", ln.S, ln.S, cp.S), x.Pos())
	et := x.Type().Underlying().(*types.Slice).Elem()
	r := st.freshRef("mk")
	hn, hs := elemHeapName(et)
	st.setHeap(hn, hs, store(st.heap(hn, hs), r, fmt.Sprintf("((as const (Array Int %s)) %s)", sortOf(et), zeroTerm(et))))
	fr.regs[x] = Val{S: mkSlice(r, "0", ln.S, cp.S), T: x.Type()}
}

// ---------------------------------------------------------------------------------------
// maps

func (e *Engine) execLookup(st *State, fr *Frame, x *ssa.Lookup) {
	m := e.val(st, fr, x.X)
	k := e.val(st, fr, x.Index)
	mt, isMap := x.X.Type().Underlying().(*types.Map)
	if !isMap { // string index (Lookup on string)
		name := e.siteName(st, fr, "index", x.Pos(), x)
		st.check("index", name, fmt.Sprintf("(and (<= 0 %s) (< %s %s))", k.S, k.S, strLen(m.S)), x.Pos())
		v := Val{S: sel(strArr(m.S), k.S), T: x.Type()}
		st.assume(rangePred(v.S, x.Type()))
		fr.regs[x] = v
		return
	}
	e.lockCheckMap(st, fr, x.X, false, x.Pos(), x)
	dn, vn, ds, vs, _ := mapHeapNames(mt)
	dom := sel(st.heap(dn, ds), m.S)
	vals := sel(st.heap(vn, vs), m.S)
	present := and(not(eq(m.S, "0")), sel(dom, k.S))
	vt := mt.Elem()
	v := ite(present, sel(vals, k.S), zeroTerm(vt))
	if needsInv(vt) {
		st.assume(implies(present, typeInv(sel(vals, k.S), vt)))
		if _, ok := vt.Underlying().(*types.Pointer); ok {
			st.assume(implies(present, fmt.Sprintf("(<= %s %s)", sel(vals, k.S), st.heap("$alloc", "Int"))))
		}
		if _, ok := vt.Underlying().(*types.Map); ok {
			st.assume(implies(present, fmt.Sprintf("(<= %s %s)", sel(vals, k.S), st.heap("$alloc", "Int"))))
		}
	}
	// name the results: lookups are re-used many times and their terms contain ite
	nv := st.freshConst("lk", sortOf(vt))
	st.assume(eq(nv, v))
	if x.CommaOk {
		np := st.freshConst("lkok", "Bool")
		st.assume(eq(np, present))
		fr.regs[x] = Val{T: x.Type(), Tup: []Val{{S: nv, T: vt}, {S: np, T: types.Typ[types.Bool]}}}
	} else {
		fr.regs[x] = Val{S: nv, T: vt}
	}
}

func (e *Engine) mapStore(st *State, mt *types.Map, m, k, v string) {
	dn, vn, ds, vs, ks := mapHeapNames(mt)
	dh := st.heap(dn, ds)
	vh := st.heap(vn, vs)
	dom := sel(dh, m)
	card := cardFun(ks)
	ndom := st.freshConst("dom", fmt.Sprintf("(Array %s Bool)", ks))
	st.assume(eq(ndom, store(dom, k, "true")))
	st.assume(fmt.Sprintf("(= (%s %s) (+ (%s %s) (ite (select %s %s) 0 1)))", card, ndom, card, dom, dom, k))
	st.assume(fmt.Sprintf("(>= (%s %s) 0)", card, dom))
	st.setHeap(dn, ds, store(dh, m, ndom))
	st.setHeap(vn, vs, store(vh, m, store(sel(vh, m), k, v)))
}

func (e *Engine) mapDelete(st *State, mt *types.Map, m, k string) {
	dn, _, ds, _, ks := mapHeapNames(mt)
	dh := st.heap(dn, ds)
	dom := sel(dh, m)
	card := cardFun(ks)
	ndom := st.freshConst("dom", fmt.Sprintf("(Array %s Bool)", ks))
	st.assume(eq(ndom, store(dom, k, "false")))
	st.assume(fmt.Sprintf("(= (%s %s) (- (%s %s) (ite (select %s %s) 1 0)))", card, ndom, card, dom, dom, k))
	st.assume(fmt.Sprintf("(>= (%s %s) 0)", card, ndom))
	// deleting from a nil map is a no-op: only update when non-nil (ref 0 never holds entries, see mapLen)
	st.setHeap(dn, ds, store(dh, m, ndom))
}

func (e *Engine) mapLen(st *State, mt *types.Map, m string) string {
	dn, _, ds, _, ks := mapHeapNames(mt)
	dom := st.freshConst("lendom", fmt.Sprintf("(Array %s Bool)", ks))
	st.assume(eq(dom, sel(st.heap(dn, ds), m)))
	card := cardFun(ks)
	st.assume(fmt.Sprintf("(>= (%s %s) 0)", card, dom))
	st.assume(fmt.Sprintf("(=> (= (%s %s) 0) (forall ((k %s)) (! (not (select %s k)) :pattern ((select %s k)))))", card, dom, ks, dom, dom))
	return ite(eq(m, "0"), "0", fmt.Sprintf("(%s %s)", card, dom))
}

func (e *Engine) execMapUpdate(st *State, fr *Frame, x *ssa.MapUpdate) {
	m := e.val(st, fr, x.Map)
	k := e.val(st, fr, x.Key)
	v := e.val(st, fr, x.Value)
	mt := x.Map.Type().Underlying().(*types.Map)
	name := e.siteName(st, fr, "nil-map", x.Pos(), x)
	st.check("nil-map", name, not(eq(m.S, "0")), x.Pos())
	e.lockCheckMap(st, fr, x.Map, true, x.Pos(), x)
	e.siteHook(st, fr, "mapupdate", x, []Val{m, k, v})
	e.mapStore(st, mt, m.S, k.S, v.S)
}

func (e *Engine) execNext(st *State, fr *Frame, x *ssa.Next) {
	it := e.val(st, fr, x.Iter)
	tup := x.Type().(*types.Tuple)
	ok := st.freshConst("next_ok", "Bool")
	if x.IsString {
		k := st.freshVal("next_i", tup.At(1).Type())
		v := st.freshVal("next_r", tup.At(2).Type())
		st.assume(implies(ok, fmt.Sprintf("(and (<= 0 %s) (< %s %s))", k.S, k.S, strLen(it.S))))
		fr.regs[x] = Val{T: x.Type(), Tup: []Val{{S: ok, T: types.Typ[types.Bool]}, k, v}}
		return
	}
	mt := it.T.Underlying().(*types.Map)
	dn, vn, ds, vs, ks := mapHeapNames(mt)
	k := st.freshVal("next_k", mt.Key())
	dom := sel(st.heap(dn, ds), it.S)
	vals := sel(st.heap(vn, vs), it.S)
	st.assume(implies(ok, and(not(eq(it.S, "0")), sel(dom, k.S))))
	if rg, isRange := x.Iter.(*ssa.Range); isRange {
		e.lockCheckMap(st, fr, rg.X, false, rg.Pos(), x)
		if hn, has := iterOf[rg]; has {
			// every key is yielded exactly once; iteration ends when all keys were visited (the map is assumed not to be
			// modified while it is ranged over)
			hsort := fmt.Sprintf("(Array %s Bool)", ks)
			vis := st.heap(hn, hsort)
			st.assume(implies(ok, not(sel(vis, k.S))))
			st.assume(fmt.Sprintf("(forall ((k!v %s)) (! (=> (select %s k!v) (and (not (= %s 0)) (select %s k!v))) :pattern ((select %s k!v))))", ks, vis, it.S, dom, vis))
			st.assume(implies(not(ok), fmt.Sprintf("(forall ((k!v %s)) (! (=> (and (not (= %s 0)) (select %s k!v)) (select %s k!v)) :pattern ((select %s k!v))))", ks, it.S, dom, vis, dom)))
			nv := st.freshConst("visited", hsort)
			st.assume(eq(nv, ite(ok, store(vis, k.S, "true"), vis)))
			st.setHeap(hn, hsort, nv)
		}
	}
	vt := mt.Elem()
	v := Val{S: sel(vals, k.S), T: vt}
	if needsInv(vt) {
		st.assume(implies(ok, typeInv(v.S, vt)))
		st.assumeAllocated(v.S, vt)
	}
	// an empty (or nil) map yields no iteration
	fr.regs[x] = Val{T: x.Type(), Tup: []Val{{S: ok, T: types.Typ[types.Bool]}, k, v}}
}

func (e *Engine) execSelect(st *State, fr *Frame, x *ssa.Select) {
	n := len(x.States)
	tup := x.Type().(*types.Tuple)
	mk := func(s *State, idx int) {
		f := s.top()
		vals := []Val{{S: itoa(int64(idx)), T: types.Typ[types.Int]}, s.freshVal("selok", types.Typ[types.Bool])}
		for i := 2; i < tup.Len(); i++ {
			vals = append(vals, s.freshVal("selrecv", tup.At(i).Type()))
		}
		f.regs[x] = Val{T: x.Type(), Tup: vals}
		s.trace = append(s.trace[:len(s.trace):len(s.trace)], fmt.Sprintf("%s:select=%d", f.fn.Name(), idx))
		if idx >= 0 && idx < n {
			e.eventSelect(s, f, x, idx)
		}
	}
	choices := []int{}
	doneReady := false
	for i := 0; i < n; i++ {
		choices = append(choices, i)
		if x.States[i].Dir == types.RecvOnly {
			if c, ok := st.doneChan[e.val(st, fr, x.States[i].Chan).S]; ok && st.ctxDone[c] {
				doneReady = true // a closed Done channel is always ready
			}
		}
	}
	if !x.Blocking && !doneReady {
		choices = append(choices, -1)
	}
	for _, c := range choices[1:] {
		o := e.fork(st)
		if o != nil {
			mk(o, c)
			e.run(o)
		}
	}
	mk(st, choices[0])
}

// ---------------------------------------------------------------------------------------
// loops

type loopInfo struct {
	header *ssa.BasicBlock
	blocks map[*ssa.BasicBlock]bool
	ord    int
}

func (e *Engine) loopsOf(fn *ssa.Function) map[*ssa.BasicBlock]*loopInfo {
	if l, ok := e.loops[fn]; ok {
		return l
	}
	res := map[*ssa.BasicBlock]*loopInfo{}
	for _, b := range fn.Blocks {
		for _, s := range b.Succs {
			if s.Dominates(b) { // back edge b -> s
				li := res[s]
				if li == nil {
					li = &loopInfo{header: s, blocks: map[*ssa.BasicBlock]bool{s: true}}
					res[s] = li
				}
				// natural loop: nodes reaching b without passing through s
				stack := []*ssa.BasicBlock{b}
				for len(stack) > 0 {
					n := stack[len(stack)-1]
					stack = stack[:len(stack)-1]
					if li.blocks[n] {
						continue
					}
					li.blocks[n] = true
					stack = append(stack, n.Preds...)
				}
			}
		}
	}
	var hs []*ssa.BasicBlock
	for h := range res {
		hs = append(hs, h)
	}
	sort.Slice(hs, func(i, j int) bool { return hs[i].Index < hs[j].Index })
	for i, h := range hs {
		res[h].ord = i
	}
	e.loops[fn] = res
	return res
}

func (e *Engine) isLoopHeader(b *ssa.BasicBlock) bool {
	_, ok := e.loopsOf(b.Parent())[b]
	return ok
}
