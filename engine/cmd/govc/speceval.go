package main

// Evaluation of contract expressions to SMT terms in a symbolic state.

import (
	"fmt"
	"go/token"
	"go/types"
	"strconv"
	"strings"
)

type Env struct {
	eng     *Engine
	st      *State
	pkg     *types.Package
	vars    map[string]Val
	snap    map[string]string // heap snapshot to read from (nil = current heaps)
	havocNew bool             // postcondition of a callee without a modifies clause: heaps first touched here are havocked, not initial
	doneSym map[string]string // done(ctx) in a callee's postcondition at a call site: ctx term -> fresh boolean
	oldSnap map[string]string // snapshot used by old(...)
	hasOld  bool
	quant   int
	where   string
	noHeap  bool
	side    *[]string // typing side conditions of heap reads inside the innermost quantifier
	lemmaPrem []string
}

// typed records that a term read from a heap has its Go type's invariant (well-typed heap axiom).
func (env *Env) typed(v Val) Val {
	if v.T == nil || !needsInv(v.T) {
		return v
	}
	inv := typeInvQF(v.S, v.T)
	if inv == "" || inv == "true" {
		return v
	}
	// inside quantifiers the well-typed-heap axioms attached to every heap symbol provide the fact
	if env.quant == 0 && env.st != nil {
		env.st.assume(inv)
	}
	return v
}

func (env *Env) errf(format string, a ...any) {
	msg := env.where + ": " + fmt.Sprintf(format, a...)
	env.eng.specErrors[msg] = true
}

func (env *Env) child() *Env {
	n := *env
	n.vars = make(map[string]Val, len(env.vars))
	for k, v := range env.vars {
		n.vars[k] = v
	}
	return &n
}

func (env *Env) heap(name, sort string) string {
	if env.noHeap {
		env.errf("heap access (%s) in a heap-free context", name)
		return "0"
	}
	if env.snap != nil {
		if s, ok := env.snap[name]; ok {
			return s
		}
		// heap did not exist when the snapshot was taken: its value then was its initial symbol
		env.st.heap(name, sort)
		return env.st.init[name]
	}
	if env.havocNew && env.st != nil {
		if _, ok := env.st.heaps[name]; !ok {
			// the callee may have changed this heap too (no modifies clause); its symbol is created only now
			env.st.heap(name, sort)
			env.st.havocHeap(name)
		}
	}
	return env.st.heap(name, sort)
}

var typeCache = map[string]types.Type{}

func (env *Env) typeOf(s string) types.Type {
	s = strings.TrimSpace(s)
	key := ""
	if env.pkg != nil {
		key = env.pkg.Path() + "|" + s
	}
	if t, ok := typeCache[key]; ok {
		return t
	}
	switch s {
	case "F", "G1", "G2", "GT":
		declareAlgebra()
		return algType(s)
	case "int":
		return types.Typ[types.Int]
	case "bool":
		return types.Typ[types.Bool]
	case "string":
		return types.Typ[types.String]
	case "byte", "uint8":
		return types.Typ[types.Uint8]
	case "uint16":
		return types.Typ[types.Uint16]
	case "uint32":
		return types.Typ[types.Uint32]
	case "uint64":
		return types.Typ[types.Uint64]
	case "int64":
		return types.Typ[types.Int64]
	case "int32":
		return types.Typ[types.Int32]
	case "uint":
		return types.Typ[types.Uint]
	}
	if strings.HasPrefix(s, "seq[") && strings.HasSuffix(s, "]") {
		// seq[T]: a mathematical sequence (total function from int), the value of vals(slice)
		if et := env.typeOf(s[4 : len(s)-1]); et != nil {
			t := &ghostMapType{key: types.Typ[types.Int], elem: et}
			typeCache[key] = t
			return t
		}
		return nil
	}
	if env.pkg == nil {
		return nil
	}
	t := env.resolveType(s)
	if t != nil {
		typeCache[key] = t
	}
	return t
}

// resolveType understands  *T, []T, [N]T (N literal), map[K]V, pkg.Name, Name (package scope, dot imports, universe).
func (env *Env) resolveType(s string) types.Type {
	s = strings.TrimSpace(s)
	switch {
	case strings.HasPrefix(s, "*"):
		if t := env.typeOf(s[1:]); t != nil {
			return types.NewPointer(t)
		}
		return nil
	case strings.HasPrefix(s, "[]"):
		if t := env.typeOf(s[2:]); t != nil {
			return types.NewSlice(t)
		}
		return nil
	case strings.HasPrefix(s, "map["):
		d := 0
		for i, c := range s {
			if c == '[' {
				d++
			} else if c == ']' {
				d--
				if d == 0 {
					k, v := env.typeOf(s[4:i]), env.typeOf(s[i+1:])
					if k != nil && v != nil {
						return types.NewMap(k, v)
					}
					return nil
				}
			}
		}
		return nil
	case s == "struct{}":
		return types.NewStruct(nil, nil)
	}
	if i := strings.Index(s, "."); i > 0 {
		pn, tn := s[:i], s[i+1:]
		for _, imp := range env.pkg.Imports() {
			if imp.Name() == pn {
				if obj, ok := imp.Scope().Lookup(tn).(*types.TypeName); ok {
					return obj.Type()
				}
			}
		}
		return nil
	}
	if obj, ok := env.pkg.Scope().Lookup(s).(*types.TypeName); ok {
		return obj.Type()
	}
	for _, imp := range env.pkg.Imports() {
		if obj, ok := imp.Scope().Lookup(s).(*types.TypeName); ok && obj.Exported() {
			return obj.Type() // dot imports
		}
	}
	if obj, ok := types.Universe.Lookup(s).(*types.TypeName); ok {
		return obj.Type()
	}
	return nil
}

func boolVal(s string) Val { return Val{S: s, T: types.Typ[types.Bool]} }
func intVal(s string) Val  { return Val{S: s, T: types.Typ[types.Int]} }

func (env *Env) evalBool(e *SExpr) string {
	v := env.eval(e)
	if sortOf(v.T) != "Bool" {
		env.errf("boolean expected: %s", e)
		return "true"
	}
	return v.S
}

func isUntyped(t types.Type) bool {
	b, ok := t.(*types.Basic)
	return ok && b.Info()&types.IsUntyped != 0
}

func (env *Env) eval(e *SExpr) Val {
	switch e.Op {
	case "int":
		n, err := strconv.ParseInt(e.Lit, 0, 64)
		if err != nil {
			u, err2 := strconv.ParseUint(e.Lit, 0, 64)
			if err2 != nil {
				env.errf("bad integer %s", e.Lit)
			}
			return Val{S: fmt.Sprintf("%d", u), T: types.Typ[types.UntypedInt]}
		}
		return Val{S: itoa(n), T: types.Typ[types.UntypedInt]}
	case "bool":
		return boolVal(e.Lit)
	case "str":
		return Val{S: strLit(e.Lit), T: types.Typ[types.String]}
	case "nil":
		return Val{S: "0", T: types.Typ[types.UntypedNil]}
	case "id":
		return env.evalIdent(e.Name)
	case "old":
		if !env.hasOld {
			env.errf("old() not available here: %s", e)
		}
		n := env.child()
		n.snap = env.oldSnap
		if n.snap == nil {
			n.snap = map[string]string{}
		}
		return n.eval(e.Args[0])
	case "sel":
		return env.evalSel(e)
	case "index":
		return env.evalIndex(e)
	case "slice":
		return env.evalSlice(e)
	case "call":
		return env.evalCall(e)
	case "lit":
		t := env.typeOf(e.Name)
		if t == nil {
			env.errf("unknown type %q in composite literal", e.Name)
			return intVal("0")
		}
		st, ok := t.Underlying().(*types.Struct)
		if !ok || st.NumFields() != len(e.Args) {
			env.errf("composite literal %s needs all %d fields, positionally", e, st.NumFields())
			return intVal("0")
		}
		name := reg.structSort(st, typeHint(t))
		var fs []string
		for i, a := range e.Args {
			v := env.coerce(env.eval(a), st.Field(i).Type())
			fs = append(fs, v.S)
		}
		if len(fs) == 0 {
			return Val{S: "mk_" + name, T: t}
		}
		return Val{S: fmt.Sprintf("(mk_%s %s)", name, strings.Join(fs, " ")), T: t}
	case "unary":
		x := env.eval(e.Args[0])
		switch e.Name {
		case "!":
			return boolVal(not(x.S))
		case "-":
			if isUntyped(x.T) {
				return Val{S: "(- " + x.S + ")", T: x.T}
			}
			return Val{S: wrap("(- "+x.S+")", x.T, true), T: x.T}
		case "*":
			if _, ok := x.T.Underlying().(*types.Pointer); ok {
				return env.loadPtrSpec(x)
			}
		}
		env.errf("bad unary %s", e)
		return x
	case "binary":
		return env.evalBinary(e)
	case "forall", "exists":
		n := env.child()
		n.quant++
		var side []string
		n.side = &side
		var binders, guards []string
		for _, v := range e.Vars {
			t := env.typeOf(v.Type)
			if t == nil {
				env.errf("unknown type %q in quantifier", v.Type)
				t = types.Typ[types.Int]
			}
			sym := fmt.Sprintf("q!%s!%d", sanitize(v.Name), env.quant)
			binders = append(binders, fmt.Sprintf("(%s %s)", sym, sortOf(t)))
			n.vars[v.Name] = Val{S: sym, T: t}
			// quantifier-free part only: a nested quantifier in guard position would have to be proved at every
			// instantiation
			if g := typeInvQF(sym, t); g != "" && g != "true" {
				guards = append(guards, g)
			}
		}
		body := n.evalBool(e.Args[0])
		guards = append(guards, dedup(side)...)
		g := and(guards...)
		pats := ""
		for _, mp := range e.Trig {
			var ts []string
			for _, t := range mp {
				tt := n.evalTrigger(t)
				if tt == "" {
					continue
				}
				ts = append(ts, tt)
			}
			if len(ts) > 0 {
				pats += " :pattern (" + strings.Join(ts, " ") + ")"
			}
		}
		if e.Op == "forall" {
			if pats != "" {
				return boolVal(fmt.Sprintf("(forall (%s) (! %s%s))", strings.Join(binders, " "), implies(g, body), pats))
			}
			return boolVal(fmt.Sprintf("(forall (%s) %s)", strings.Join(binders, " "), implies(g, body)))
		}
		return boolVal(fmt.Sprintf("(exists (%s) %s)", strings.Join(binders, " "), and(g, body)))
	}
	env.errf("cannot evaluate %s", e)
	return boolVal("true")
}

func (env *Env) evalIdent(name string) Val {
	if v, ok := env.vars[name]; ok {
		return v
	}
	if env.pkg != nil {
		if obj := env.pkg.Scope().Lookup(name); obj != nil {
			switch o := obj.(type) {
			case *types.Const:
				return Val{S: constTerm(o.Val(), o.Type()), T: o.Type()}
			case *types.Var:
				hn := "G!" + env.pkg.Path() + "." + name
				return Val{S: env.heap(hn, sortOf(o.Type())), T: o.Type()}
			}
		}
		// dot-imported packages
		for _, imp := range env.pkg.Imports() {
			if obj := imp.Scope().Lookup(name); obj != nil && obj.Exported() {
				if c, ok := obj.(*types.Const); ok {
					return Val{S: constTerm(c.Val(), c.Type()), T: c.Type()}
				}
			}
		}
	}
	env.errf("unknown identifier %q", name)
	return intVal("0")
}

func (env *Env) loadPtrSpec(p Val) Val {
	et := deref(p.T)
	if s, ok := et.Underlying().(*types.Struct); ok {
		name := reg.structSort(s, typeHint(et))
		if s.NumFields() == 0 {
			return Val{S: "mk_" + name, T: et}
		}
		var fs []string
		for i := 0; i < s.NumFields(); i++ {
			hn, hs := fieldHeapName(et, s, i)
			fs = append(fs, sel(env.heap(hn, hs), p.S))
		}
		return Val{S: fmt.Sprintf("(mk_%s %s)", name, strings.Join(fs, " ")), T: et}
	}
	if p.A != nil && env.snap == nil {
		return env.st.load(p.A)
	}
	hn, hs := cellHeapName(et)
	return Val{S: sel(env.heap(hn, hs), p.S), T: et}
}

func findField(s *types.Struct, name string) int {
	for i := 0; i < s.NumFields(); i++ {
		if s.Field(i).Name() == name {
			return i
		}
	}
	return -1
}

func (env *Env) evalSel(e *SExpr) Val {
	// package-qualified constant?
	if e.Args[0].Op == "id" {
		if _, isVar := env.vars[e.Args[0].Name]; !isVar && env.pkg != nil {
			for _, imp := range env.pkg.Imports() {
				if imp.Name() == e.Args[0].Name {
					if obj := imp.Scope().Lookup(e.Name); obj != nil {
						if c, ok := obj.(*types.Const); ok {
							return Val{S: constTerm(c.Val(), c.Type()), T: c.Type()}
						}
					}
				}
			}
		}
	}
	x := env.eval(e.Args[0])
	// tuple projection result.0
	if len(x.Tup) > 0 {
		if i, err := strconv.Atoi(e.Name); err == nil && i < len(x.Tup) {
			return x.Tup[i]
		}
	}
	t := x.T
	if p, ok := t.Underlying().(*types.Pointer); ok {
		s, ok := p.Elem().Underlying().(*types.Struct)
		if !ok {
			env.errf("selector on pointer to non-struct: %s", e)
			return intVal("0")
		}
		// interior pointer (address of a struct-valued field, element or local): read the struct value at the address
		if x.A != nil && env.st != nil && (len(x.A.Path) > 0 || !types.Identical(x.A.RootT, x.A.T) || x.A.Kind != ACell) && x.A.Kind != ACell {
			if fi := findField(s, e.Name); fi >= 0 {
				if root, ok := env.rootOf(x.A); ok {
					sv := projectPath(root, x.A.Path)
					name := reg.structSort(s, typeHint(p.Elem()))
					return env.typed(Val{S: fmt.Sprintf("(%s_f%d %s)", name, fi, sv), T: s.Field(fi).Type()})
				}
			}
		}
		i := findField(s, e.Name)
		if i < 0 {
			// ghost field?
			if gv, ok := env.ghostField(x, p.Elem(), e.Name); ok {
				return gv
			}
			// promoted field through embedded struct pointer / value
			for j := 0; j < s.NumFields(); j++ {
				if s.Field(j).Embedded() {
					inner := env.evalSelOn(x, p.Elem(), s, j)
					if r, ok := env.trySel(inner, e.Name); ok {
						return r
					}
				}
			}
			env.errf("no field %s in %s", e.Name, p.Elem())
			return intVal("0")
		}
		return env.evalSelOn(x, p.Elem(), s, i)
	}
	if s, ok := t.Underlying().(*types.Struct); ok {
		i := findField(s, e.Name)
		if i < 0 {
			env.errf("no field %s in %s", e.Name, t)
			return intVal("0")
		}
		name := reg.structSort(s, typeHint(t))
		return Val{S: fmt.Sprintf("(%s_f%d %s)", name, i, x.S), T: s.Field(i).Type()}
	}
	env.errf("selector %s on non-struct %s", e.Name, t)
	return intVal("0")
}

func (env *Env) trySel(x Val, name string) (Val, bool) {
	t := x.T
	if p, ok := t.Underlying().(*types.Pointer); ok {
		if s, ok := p.Elem().Underlying().(*types.Struct); ok {
			if i := findField(s, name); i >= 0 {
				return env.evalSelOn(x, p.Elem(), s, i), true
			}
		}
	}
	if s, ok := t.Underlying().(*types.Struct); ok {
		if i := findField(s, name); i >= 0 {
			sn := reg.structSort(s, typeHint(t))
			return Val{S: fmt.Sprintf("(%s_f%d %s)", sn, i, x.S), T: s.Field(i).Type()}, true
		}
	}
	return Val{}, false
}

func (env *Env) evalSelOn(x Val, stt types.Type, s *types.Struct, i int) Val {
	hn, hs := fieldHeapName(stt, s, i)
	return env.typed(Val{S: sel(env.heap(hn, hs), x.S), T: s.Field(i).Type()})
}

func dedup(xs []string) []string {
	seen := map[string]bool{}
	var out []string
	for _, x := range xs {
		if !seen[x] {
			seen[x] = true
			out = append(out, x)
		}
	}
	return out
}

// ghost fields live in heaps named GF!<Type>!<field>
func (env *Env) ghostField(x Val, stt types.Type, name string) (Val, bool) {
	ts := env.eng.typeSpecFor(stt)
	if ts == nil {
		return Val{}, false
	}
	for _, g := range ts.Ghost {
		if g.Name == name {
			gt := env.eng.ghostType(ts, g)
			hn := "GF!" + ts.Name + "!" + name
			return Val{S: sel(env.heap(hn, fmt.Sprintf("(Array Int %s)", gt.sort)), x.S), T: gt.t, Tup: nil}, true
		}
	}
	return Val{}, false
}

func (env *Env) evalIndex(e *SExpr) Val {
	x := env.eval(e.Args[0])
	i := env.eval(e.Args[1])
	switch t := x.T.Underlying().(type) {
	case *types.Slice:
		hn, hs := elemHeapName(t.Elem())
		return env.typed(Val{S: sel(sel(env.heap(hn, hs), slRef(x.S)), ix(slOff(x.S), i.S)), T: t.Elem()})
	case *types.Basic:
		if t.Info()&types.IsString != 0 {
			return env.typed(Val{S: sel(strArr(x.S), i.S), T: types.Typ[types.Uint8]})
		}
	case *types.Array:
		return Val{S: sel(x.S, i.S), T: t.Elem()}
	case *types.Map:
		dn, vn, ds, vs, _ := mapHeapNames(t)
		dom := sel(env.heap(dn, ds), x.S)
		vals := sel(env.heap(vn, vs), x.S)
		k := env.coerce(i, t.Key())
		_ = dom
		// contract convention: m[k] is the stored value and is only meaningful under "k in m" (no zero default);
		// this keeps quantified invariants free of ite terms, which cannot be used in triggers
		return Val{S: sel(vals, k.S), T: t.Elem()}
	case *types.Pointer:
		if at, ok := t.Elem().Underlying().(*types.Array); ok {
			hn, hs := elemHeapName(at.Elem())
			return Val{S: sel(sel(env.heap(hn, hs), x.S), i.S), T: at.Elem()}
		}
	}
	if gm, ok := x.T.(*ghostMapType); ok {
		k := env.coerce(i, gm.key)
		return Val{S: sel(x.S, k.S), T: gm.elem}
	}
	env.errf("cannot index %s (type %s)", e.Args[0], x.T)
	return intVal("0")
}

func (env *Env) evalSlice(e *SExpr) Val {
	x := env.eval(e.Args[0])
	switch x.T.Underlying().(type) {
	case *types.Slice:
		lo, hi := "0", slLen(x.S)
		if e.Args[1] != nil {
			lo = env.eval(e.Args[1]).S
		}
		if e.Args[2] != nil {
			hi = env.eval(e.Args[2]).S
		}
		return Val{S: mkSlice(slRef(x.S), add(slOff(x.S), lo), sub(hi, lo), sub(slCap(x.S), lo)), T: x.T}
	}
	env.errf("slice expressions are supported on slices only: %s", e)
	return x
}

// coerce converts an untyped constant to the target type (no-op on terms).
func (env *Env) coerce(v Val, t types.Type) Val {
	if isUntyped(v.T) {
		if v.T == types.Typ[types.UntypedNil] {
			return Val{S: zeroTerm(t), T: t}
		}
		return Val{S: v.S, T: t}
	}
	return v
}

func (env *Env) evalBinary(e *SExpr) Val {
	op := e.Name
	switch op {
	case "&&":
		return boolVal(and(env.evalBool(e.Args[0]), env.evalBool(e.Args[1])))
	case "||":
		return boolVal(or(env.evalBool(e.Args[0]), env.evalBool(e.Args[1])))
	case "==>":
		return boolVal(implies(env.evalBool(e.Args[0]), env.evalBool(e.Args[1])))
	case "<==>":
		return boolVal(eq(env.evalBool(e.Args[0]), env.evalBool(e.Args[1])))
	case "in":
		k := env.eval(e.Args[0])
		m := env.eval(e.Args[1])
		if mt, ok := m.T.Underlying().(*types.Map); ok {
			dn, _, ds, _, _ := mapHeapNames(mt)
			k = env.coerce(k, mt.Key())
			return boolVal(and(not(eq(m.S, "0")), sel(sel(env.heap(dn, ds), m.S), k.S)))
		}
		if gs, ok := m.T.(*ghostMapType); ok && sortOf(gs.elem) == "Bool" {
			k = env.coerce(k, gs.key)
			return boolVal(sel(m.S, k.S))
		}
		env.errf("'in' needs a map or ghost set: %s", e)
		return boolVal("true")
	}
	a := env.eval(e.Args[0])
	b := env.eval(e.Args[1])
	// the address of a named location (a field of an object, an element, a local, a global) is never nil; such addresses
	// are symbolic (Val.A) and carry no reference term
	if op == "==" || op == "!=" {
		named := func(v Val) bool { return v.A != nil && v.A.Kind != ACell && v.S == "0" }
		isNil := func(ex *SExpr) bool { return ex.Op == "nil" }
		if (named(a) && isNil(e.Args[1])) || (named(b) && isNil(e.Args[0])) {
			if op == "==" {
				return boolVal("false")
			}
			return boolVal("true")
		}
	}
	// untyped operands adopt the type of the other side
	if isUntyped(a.T) && !isUntyped(b.T) {
		a = env.coerce(a, b.T)
	} else if isUntyped(b.T) && !isUntyped(a.T) {
		b = env.coerce(b, a.T)
	}
	switch op {
	case "==", "!=":
		var t string
		_, aSl := a.T.Underlying().(*types.Slice)
		_, bSl := b.T.Underlying().(*types.Slice)
		switch {
		case aSl && bSl && a.S != nilSlice && b.S != nilSlice:
			t = env.sliceContentEq(a, b)
		case aSl && (b.S == nilSlice || b.S == "0"):
			t = eq(slRef(a.S), "0")
		case bSl && (a.S == nilSlice || a.S == "0"):
			t = eq(slRef(b.S), "0")
		default:
			if sortOf(a.T) != sortOf(b.T) {
				env.errf("comparison of different sorts: %s (%s vs %s)", e, a.T, b.T)
				return boolVal("true")
			}
			t = eq(a.S, b.S)
		}
		if op == "!=" {
			t = not(t)
		}
		return boolVal(t)
	case "<", "<=", ">", ">=":
		return boolVal("(" + op + " " + a.S + " " + b.S + ")")
	}
	// arithmetic: Go semantics when both operands share a sized integer type, mathematical otherwise
	resT := a.T
	exact := types.Identical(a.T, b.T) && !isUntyped(a.T)
	if !exact {
		if isUntyped(a.T) && isUntyped(b.T) {
			resT = types.Typ[types.UntypedInt]
		} else {
			resT = types.Typ[types.Int]
		}
	}
	if bits, _, ok := intInfo(resT); ok && bits == 64 {
		exact = false
	}
	var tok_ token.Token
	switch op {
	case "+":
		tok_ = token.ADD
	case "-":
		tok_ = token.SUB
	case "*":
		tok_ = token.MUL
	case "/":
		tok_ = token.QUO
	case "%":
		tok_ = token.REM
	case "<<":
		tok_ = token.SHL
	case ">>":
		tok_ = token.SHR
	case "&":
		tok_ = token.AND
	case "|":
		tok_ = token.OR
	case "^":
		tok_ = token.XOR
	default:
		env.errf("unsupported operator %s", op)
		return a
	}
	if !exact {
		switch tok_ {
		case token.ADD:
			return Val{S: "(+ " + a.S + " " + b.S + ")", T: resT}
		case token.SUB:
			return Val{S: "(- " + a.S + " " + b.S + ")", T: resT}
		case token.MUL:
			return Val{S: "(* " + a.S + " " + b.S + ")", T: resT}
		case token.QUO:
			if isNonNegConst(b.S) {
				return Val{S: "(div " + a.S + " " + b.S + ")", T: resT}
			}
		case token.REM:
			if isNonNegConst(b.S) {
				return Val{S: "(mod " + a.S + " " + b.S + ")", T: resT}
			}
		case token.SHR:
			if k, ok := smallConst(b.S); ok && k < 63 {
				return Val{S: fmt.Sprintf("(div %s %d)", a.S, int64(1)<<uint(k)), T: resT}
			}
		case token.SHL:
			if k, ok := smallConst(b.S); ok && k < 62 {
				return Val{S: fmt.Sprintf("(* %s %d)", a.S, int64(1)<<uint(k)), T: resT}
			}
		}
		if isUntyped(resT) {
			resT = types.Typ[types.Int]
		}
	}
	if env.quant > 0 {
		// inside quantifiers no side assumptions may be added: only operators with closed forms are allowed
		switch tok_ {
		case token.ADD, token.SUB, token.MUL:
		case token.QUO, token.REM, token.SHL, token.SHR:
			if _, ok := smallConst(b.S); !ok {
				env.errf("operator %s with non-constant right operand inside a quantifier: %s", op, e)
				return a
			}
		case token.AND:
			if k, ok := smallConst(b.S); !ok || (k+1)&k != 0 {
				env.errf("operator & inside a quantifier needs a 2^n-1 mask: %s", e)
				return a
			}
		default:
			env.errf("operator %s not supported inside a quantifier: %s", op, e)
			return a
		}
	}
	return env.eng.binop(env.st, nil, tok_, a, b, resT, token.NoPos, nil)
}

func (env *Env) sliceContentEq(a, b Val) string {
	at := a.T.Underlying().(*types.Slice)
	hn, hs := elemHeapName(at.Elem())
	bt := b.T.Underlying().(*types.Slice)
	hn2, hs2 := elemHeapName(bt.Elem())
	ha, hb := env.heap(hn, hs), env.heap(hn2, hs2)
	q := fmt.Sprintf("qs!%d", env.quant+1)
	return and(eq(slLen(a.S), slLen(b.S)),
		fmt.Sprintf("(forall ((%s Int)) (=> (and (<= 0 %s) (< %s %s)) (= (select (select %s %s) %s) (select (select %s %s) %s))))",
			q, q, q, slLen(a.S), ha, slRef(a.S), ix(slOff(a.S), q), hb, slRef(b.S), ix(slOff(b.S), q)))
}

func (env *Env) evalCall(e *SExpr) Val {
	name := e.Name
	arg := func(i int) Val { return env.eval(e.Args[i]) }
	switch name {
	case "len":
		x := arg(0)
		switch t := x.T.Underlying().(type) {
		case *types.Slice:
			return intVal(slLen(x.S))
		case *types.Basic:
			return intVal(strLen(x.S))
		case *types.Array:
			return intVal(fmt.Sprintf("%d", t.Len()))
		case *types.Map:
			dn, _, ds, _, ks := mapHeapNames(t)
			dom := sel(env.heap(dn, ds), x.S)
			return intVal(ite(eq(x.S, "0"), "0", fmt.Sprintf("(%s %s)", cardFun(ks), dom)))
		}
		if gs, ok := x.T.(*ghostMapType); ok {
			return intVal(fmt.Sprintf("(%s %s)", cardFun(sortOf(gs.key)), x.S))
		}
		env.errf("len of %s", x.T)
		return intVal("0")
	case "cap":
		x := arg(0)
		return intVal(slCap(x.S))
	case "held":
		// held(lockexpr): lock is held (any mode) on this path
		key := env.lockKey(e.Args[0])
		for _, l := range env.st.locks {
			if l.key == key {
				return boolVal("true")
			}
		}
		return boolVal("false")
	case "typeIs":
		// typeIs(ifaceExpr, "T"): dynamic type test
		x := arg(0)
		t := env.typeOf(e.Args[1].Lit)
		if t == nil {
			env.errf("unknown type in typeIs: %s", e)
			return boolVal("true")
		}
		return boolVal(eq(ifTyp(x.S), itoa(int64(typeTag(t)))))
	case "dyn":
		// dyn(ifaceExpr, "T"): payload of an interface as T
		x := arg(0)
		t := env.typeOf(e.Args[1].Lit)
		if t == nil {
			env.errf("unknown type in dyn: %s", e)
			return intVal("0")
		}
		switch t.Underlying().(type) {
		case *types.Pointer, *types.Map, *types.Chan, *types.Signature:
			return Val{S: ifVal(x.S), T: t}
		}
		_, unbox := boxFuns(t)
		return Val{S: fmt.Sprintf("(%s %s)", unbox, ifVal(x.S)), T: t}
	}
	// conversion?
	if t := env.typeOf(name); t != nil && len(e.Args) == 1 {
		x := arg(0)
		if isUntyped(x.T) {
			return env.coerce(x, t)
		}
		if ((env.quant > 0 && strings.Contains(x.S, "q!")) || env.snap != nil) && sortOf(x.T) == "Slice" && sortOf(t) == "Str" {
			return Val{S: env.content(x), T: t}
		}
		if env.quant > 0 && strings.Contains(x.S, "q!") {
			fs, ts := sortOf(x.T), sortOf(t)
			if fs != ts || (fs == "Slice") != (ts == "Slice") {
				env.errf("conversion between %s and %s inside a quantifier is not supported: %s", x.T, t, e)
				return x
			}
		}
		return env.eng.convert(env.st, x, t)
	}
	// spec function?
	if sf := env.eng.specFunc(env.pkg, name); sf != nil && sf.Macro {
		if len(sf.Params) != len(e.Args) {
			env.errf("wrong number of arguments to %s", name)
			return intVal("0")
		}
		n := env.child()
		tenv := &Env{eng: env.eng, pkg: env.eng.typesPkg(sf.Pkg), where: "spec macro " + sf.Name}
		for i, p := range sf.Params {
			a := arg(i)
			if t := tenv.typeOf(p.Type); t != nil {
				a = env.coerce(a, t)
				a.T = t
			}
			n.vars[p.Name] = a
		}
		if p := env.eng.typesPkg(sf.Pkg); p != nil {
			n.pkg = p
		}
		r := n.eval(sf.Body)
		if rt := tenv.typeOf(sf.Result); rt != nil {
			r = env.coerce(r, rt)
			r.T = rt
		}
		return r
	}
	if sf := env.eng.specFunc(env.pkg, name); sf != nil {
		sym, ptypes, rt := env.eng.defineSpecFunc(env, sf)
		env.eng.assumeSpecLemmas(env, sf)
		if len(ptypes) != len(e.Args) {
			env.errf("wrong number of arguments to %s", name)
			return intVal("0")
		}
		var as []string
		for i := range e.Args {
			a := env.coerce(arg(i), ptypes[i])
			if sortOf(a.T) != sortOf(ptypes[i]) {
				env.errf("argument %d of %s has sort %s, want %s", i, name, sortOf(a.T), sortOf(ptypes[i]))
			}
			as = append(as, a.S)
		}
		if len(as) == 0 {
			return Val{S: sym, T: rt}
		}
		return Val{S: "(" + sym + " " + strings.Join(as, " ") + ")", T: rt}
	}
	// uninterpreted library functions usable in specs (declared in libspec.go)
	if v, ok := env.eng.specBuiltin(env, name, e); ok {
		return v
	}
	env.errf("unknown function %q", name)
	return intVal("0")
}

func (env *Env) lockKey(e *SExpr) string {
	// locks are identified by the syntactic SMT term of their address: <ref>.<field>
	if e.Op == "sel" {
		x := env.eval(e.Args[0])
		return x.S + "." + e.Name
	}
	return e.String()
}

// ghost map/set types ---------------------------------------------------------------------

type ghostMapType struct {
	key  types.Type
	elem types.Type
}

func (g *ghostMapType) Underlying() types.Type { return g }
func (g *ghostMapType) String() string         { return "ghostmap[" + g.key.String() + "]" + g.elem.String() }

type ghostTypeInfo struct {
	t    types.Type
	sort string
}

func (e *Engine) ghostType(ts *TypeSpec, g SVar) ghostTypeInfo {
	pkg := e.typesPkg(ts.Pkg)
	env := &Env{eng: e, pkg: pkg, where: "ghost " + ts.Name + "." + g.Name}
	s := strings.TrimSpace(g.Type)
	if strings.HasPrefix(s, "set[") && strings.HasSuffix(s, "]") {
		kt := env.typeOf(s[4 : len(s)-1])
		if kt == nil {
			env.errf("unknown key type in %s", s)
			kt = types.Typ[types.Int]
		}
		return ghostTypeInfo{t: &ghostMapType{key: kt, elem: types.Typ[types.Bool]}, sort: fmt.Sprintf("(Array %s Bool)", sortOf(kt))}
	}
	if strings.HasPrefix(s, "map[") {
		// map[K]V with K simple
		i := strings.Index(s, "]")
		kt := env.typeOf(s[4:i])
		vs := s[i+1:]
		if kt == nil {
			env.errf("unknown key type in %s", s)
			kt = types.Typ[types.Int]
		}
		var vt types.Type
		var vsort string
		if strings.HasPrefix(vs, "map[") || strings.HasPrefix(vs, "set[") {
			inner := e.ghostType(ts, SVar{g.Name, vs})
			vt, vsort = inner.t, inner.sort
		} else {
			vt = env.typeOf(vs)
			if vt == nil {
				env.errf("unknown value type in %s", s)
				vt = types.Typ[types.Int]
			}
			vsort = sortOf(vt)
		}
		return ghostTypeInfo{t: &ghostMapType{key: kt, elem: vt}, sort: fmt.Sprintf("(Array %s %s)", sortOf(kt), vsort)}
	}
	t := env.typeOf(s)
	if t == nil {
		env.errf("unknown ghost type %s", s)
		t = types.Typ[types.Int]
	}
	return ghostTypeInfo{t: t, sort: sortOf(t)}
}

type expClause struct {
	name string
	term string
}

// expand evaluates clauses; inv(x) / invExcept(x, a, b...) expand to the named invariants of x's type.
func (env *Env) expand(cls []Clause) []expClause {
	var out []expClause
	for i, c := range cls {
		nm := c.Name
		if nm == "" {
			nm = fmt.Sprintf("%d", i)
		}
		if c.Expr.Op == "call" && (c.Expr.Name == "inv" || c.Expr.Name == "invExcept") && len(c.Expr.Args) >= 1 {
			x := env.eval(c.Expr.Args[0])
			ts := env.eng.typeSpecFor(deref(x.T))
			if ts == nil {
				env.errf("inv(): no invariants declared for %s", x.T)
				continue
			}
			skip := map[string]bool{}
			for _, a := range c.Expr.Args[1:] {
				skip[a.String()] = true
			}
			tenv := *env
			tenv.pkg = env.eng.typesPkg(ts.Pkg)
			tenv.vars = map[string]Val{ts.RecvVar: x}
			tenv.where = "invariant of " + ts.Name
			for j, inv := range ts.Invs {
				in := inv.Name
				if in == "" {
					in = fmt.Sprintf("%d", j)
				}
				if skip[in] {
					continue
				}
				out = append(out, expClause{name: "inv." + in, term: tenv.evalBool(inv.Expr)})
			}
			continue
		}
		out = append(out, expClause{name: nm, term: env.evalBool(c.Expr)})
	}
	return out
}

// evalTrigger evaluates a trigger term: dom(m, k) and val(m, k) name the raw selects of a map; any other
// expression must evaluate to a term without ite / boolean structure.
func (env *Env) evalTrigger(t *SExpr) string {
	if t.Op == "old" && len(t.Args) == 1 && env.hasOld {
		// old(dom(m, k)): the raw select in the pre-state
		n := env.child()
		n.snap = env.oldSnap
		if n.snap == nil {
			n.snap = map[string]string{}
		}
		return n.evalTrigger(t.Args[0])
	}
	if t.Op == "call" && (t.Name == "dom" || t.Name == "val") && len(t.Args) == 2 {
		m := env.eval(t.Args[0])
		k := env.eval(t.Args[1])
		if mt, ok := m.T.Underlying().(*types.Map); ok {
			dn, vn, ds, vs, _ := mapHeapNames(mt)
			k = env.coerce(k, mt.Key())
			if t.Name == "dom" {
				return sel(sel(env.heap(dn, ds), m.S), k.S)
			}
			return sel(sel(env.heap(vn, vs), m.S), k.S)
		}
		if gm, ok := m.T.(*ghostMapType); ok {
			k = env.coerce(k, gm.key)
			return sel(m.S, k.S)
		}
		env.errf("dom/val trigger needs a map: %s", t)
		return ""
	}
	v := env.eval(t)
	for _, bad := range []string{"(ite ", "(and ", "(or ", "(not ", "(=> ", "(= ", "(< ", "(<= "} {
		if strings.Contains(v.S, bad) {
			env.errf("trigger %s evaluates to a term with boolean structure (%s)", t, bad)
			return ""
		}
	}
	return v.S
}

// content abstracts a byte slice (or string) into its Str value. Inside a quantifier, for a slice that depends on the
// bound variable, it is the bare application of the content function (no defining axiom: only congruence).
func (env *Env) content(v Val) string {
	if sortOf(v.T) == "Str" {
		return v.S
	}
	if (env.quant > 0 && strings.Contains(v.S, "q!")) || env.snap != nil {
		// (inside old(): the bytes of the pre-state; the bare application is equal, by congruence, to the strings that the
		// code formed from the same bytes)
		slt, ok := v.T.Underlying().(*types.Slice)
		if !ok {
			env.errf("content of a non-slice")
			return emptyStr
		}
		hn, hs := elemHeapName(slt.Elem())
		fn := "content!" + tkey(slt.Elem())
		reg.declareFun(fn, []string{fmt.Sprintf("(Array Int %s)", sortOf(slt.Elem())), "Int", "Int"}, "Str")
		return fmt.Sprintf("(%s (select %s %s) %s %s)", fn, env.heap(hn, hs), slRef(v.S), slOff(v.S), slLen(v.S))
	}
	return env.eng.contentOf(env.st, v)
}

// rootOf reads the root location of an address in the heap version this environment looks at (old() aware).
func (env *Env) rootOf(a *Addr) (string, bool) {
	switch a.Kind {
	case AField:
		hn, hs := fieldHeapName(a.STT, a.ST, a.Field)
		return sel(env.heap(hn, hs), a.Base), true
	case AElem:
		hn, hs := elemHeapName(a.RootT)
		return sel(sel(env.heap(hn, hs), a.Base), a.Idx), true
	case ALocal:
		if env.snap == nil {
			return env.st.loadRoot(a), true
		}
	}
	return "", false
}
