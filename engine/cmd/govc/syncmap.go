package main

// sync.Map: a typed-container discipline. A field declared "field f syncmap K V" holds only keys of dynamic type K
// and values of dynamic type V (checked at every Store/LoadOrStore, assumed at every Load/Range). Contents are not
// tracked: a Load returns an arbitrary well-typed value.

import (
	"fmt"
	"go/token"
	"go/types"
	"strings"

	"golang.org/x/tools/go/ssa"
)

// syncMapKeyLen: optional "keylen N" refinement of a syncmap declaration (string keys of a fixed length).
func (e *Engine) syncMapKeyLen(fr *Frame, recv ssa.Value) (int, bool) {
	var fa *ssa.FieldAddr
	switch x := recv.(type) {
	case *ssa.FieldAddr:
		fa = x
	case *ssa.UnOp:
		if f, isFA := x.X.(*ssa.FieldAddr); isFA && x.Op == token.MUL {
			fa = f
		}
	}
	if fa == nil {
		return 0, false
	}
	stt := deref(fa.X.Type())
	s, isStruct := stt.Underlying().(*types.Struct)
	if !isStruct {
		return 0, false
	}
	fs := strings.Fields(e.ownerOf(stt, s.Field(fa.Field).Name()))
	for i := 0; i+1 < len(fs); i++ {
		if fs[i] == "keylen" {
			var n int
			if _, err := fmt.Sscanf(fs[i+1], "%d", &n); err == nil {
				return n, true
			}
		}
	}
	return 0, false
}

func keyLenPred(k Val, kt types.Type, n int) string {
	_, unbox := boxFuns(kt)
	return eq(strLen(fmt.Sprintf("(%s %s)", unbox, ifVal(k.S))), itoa(int64(n)))
}

func (e *Engine) syncMapDecl(fr *Frame, recv ssa.Value) (kt, vt types.Type, ok bool) {
	var fa *ssa.FieldAddr
	switch x := recv.(type) {
	case *ssa.FieldAddr:
		fa = x
	case *ssa.UnOp:
		if f, isFA := x.X.(*ssa.FieldAddr); isFA && x.Op == token.MUL {
			fa = f
		}
	}
	if fa == nil {
		// a local alias of the field:  mv := x.memberToView; mv.Range(...)  (NaiveForm: a cell with exactly one store)
		if u, isLoad := recv.(*ssa.UnOp); isLoad && u.Op == token.MUL {
			if al, isAlloc := u.X.(*ssa.Alloc); isAlloc && al.Parent() != nil {
				var stores []*ssa.Store
				for _, b := range al.Parent().Blocks {
					for _, in := range b.Instrs {
						if st, isStore := in.(*ssa.Store); isStore && st.Addr == al {
							stores = append(stores, st)
						}
					}
				}
				if len(stores) == 1 {
					if ld, isLd := stores[0].Val.(*ssa.UnOp); isLd && ld.Op == token.MUL {
						if f, isFA := ld.X.(*ssa.FieldAddr); isFA {
							fa = f
						}
					}
				}
			}
		}
	}
	if fa == nil {
		return nil, nil, false
	}
	stt := deref(fa.X.Type())
	s, isStruct := stt.Underlying().(*types.Struct)
	if !isStruct {
		return nil, nil, false
	}
	own := e.ownerOf(stt, s.Field(fa.Field).Name())
	fs := strings.Fields(own)
	if len(fs) < 3 || fs[0] != "syncmap" {
		return nil, nil, false
	}
	n := namedOf(stt)
	if n == nil || n.Obj().Pkg() == nil {
		return nil, nil, false
	}
	env := &Env{eng: e, pkg: e.typesPkg(n.Obj().Pkg().Path()), where: "syncmap declaration of " + s.Field(fa.Field).Name()}
	kt = env.typeOf(fs[1])
	end := len(fs)
	for i := 2; i < len(fs); i++ {
		if fs[i] == "keylen" {
			end = i
			break
		}
	}
	vt = env.typeOf(strings.Join(fs[2:end], " "))
	if kt == nil || vt == nil {
		env.errf("unknown types in %q", own)
		return nil, nil, false
	}
	return kt, vt, true
}

func dynTypeIs(v string, t types.Type) string {
	c := eq(ifTyp(v), itoa(int64(typeTag(t))))
	switch t.Underlying().(type) {
	case *types.Pointer:
		c = and(c, not(eq(ifVal(v), "0")))
	}
	return c
}

func (e *Engine) callRecvValue(ins ssa.Instruction) ssa.Value {
	if c, ok := ins.(ssa.CallInstruction); ok && len(c.Common().Args) > 0 {
		return c.Common().Args[0]
	}
	return nil
}

func init() {
	libModels["(*sync.Map).Load"] = func(e *Engine, st *State, fr *Frame, args []Val, resT types.Type, pos token.Pos, ins ssa.Instruction) Val {
		used(e, "sync.Map with a declared key/value type: Load/Range return arbitrary entries of the declared dynamic types; Store/LoadOrStore are checked against the declaration; contents are not tracked")
		v := st.freshVal("smload", resTypeAt(resT, 0))
		ok := st.freshConst("smok", "Bool")
		if kt, vt, decl := e.syncMapDecl(fr, e.callRecvValue(ins)); decl {
			st.assume(implies(ok, dynTypeIs(v.S, vt)))
			if n, has := e.syncMapKeyLen(fr, e.callRecvValue(ins)); has {
				// only keys of the declared length are ever stored
				st.assume(implies(ok, keyLenPred(args[1], kt, n)))
			}
		} else {
			e.assumptions["sync.Map field without a syncmap declaration: loaded values are untyped"] = true
		}
		st.assume(implies(not(ok), eq(v.S, nilIface)))
		return tupleOf(resT, v, Val{S: ok, T: tBool})
	}
	storeCheck := func(e *Engine, st *State, fr *Frame, k, v Val, pos token.Pos, ins ssa.Instruction) (types.Type, bool) {
		kt, vt, decl := e.syncMapDecl(fr, e.callRecvValue(ins))
		if !decl {
			return nil, false
		}
		name := e.siteName(st, fr, "syncmap-type", pos, ins)
		goal := and(dynTypeIs(k.S, kt), dynTypeIs(v.S, vt))
		if n, has := e.syncMapKeyLen(fr, e.callRecvValue(ins)); has {
			goal = and(goal, keyLenPred(k, kt, n))
		}
		st.check("syncmap-type", name, goal, pos)
		return vt, true
	}
	libModels["(*sync.Map).Store"] = func(e *Engine, st *State, fr *Frame, args []Val, resT types.Type, pos token.Pos, ins ssa.Instruction) Val {
		used(e, "sync.Map with a declared key/value type: Load/Range return arbitrary entries of the declared dynamic types; Store/LoadOrStore are checked against the declaration; contents are not tracked")
		storeCheck(e, st, fr, args[1], args[2], pos, ins)
		return Val{}
	}
	libModels["(*sync.Map).LoadOrStore"] = func(e *Engine, st *State, fr *Frame, args []Val, resT types.Type, pos token.Pos, ins ssa.Instruction) Val {
		used(e, "sync.Map with a declared key/value type: Load/Range return arbitrary entries of the declared dynamic types; Store/LoadOrStore are checked against the declaration; contents are not tracked")
		vt, decl := storeCheck(e, st, fr, args[1], args[2], pos, ins)
		loaded := st.freshConst("smloaded", "Bool")
		actual := st.freshVal("smactual", resTypeAt(resT, 0))
		st.assume(implies(not(loaded), eq(actual.S, args[2].S)))
		if decl {
			st.assume(dynTypeIs(actual.S, vt))
		}
		return tupleOf(resT, actual, Val{S: loaded, T: tBool})
	}
	libModels["(*sync.Map).Delete"] = func(e *Engine, st *State, fr *Frame, args []Val, resT types.Type, pos token.Pos, ins ssa.Instruction) Val {
		return Val{}
	}
	libModels["(*sync.Map).Range"] = func(e *Engine, st *State, fr *Frame, args []Val, resT types.Type, pos token.Pos, ins ssa.Instruction) Val {
		used(e, "sync.Map.Range(f): f runs for an arbitrary number of arbitrary well-typed entries (state written by f is havocked before and after one symbolic iteration)")
		e.modelRange(st, fr, args[0], args[1], pos, ins)
		return Val{}
	}
}

func (e *Engine) modelRange(st *State, fr *Frame, m Val, f Val, pos token.Pos, ins ssa.Instruction) {
	if f.C == nil {
		e.unknownCall(st, "callback:sync.Map.Range", nil, nil, false)
		return
	}
	kt, vt, decl := e.syncMapDecl(fr, e.callRecvValue(ins))
	fn := f.C.Fn
	mkFrame := func(s *State) *Frame {
		nf := e.newFrame(fn)
		nf.freeVars = f.C.Bindings
		for i, p := range fn.Params {
			v := s.freshVal("range_"+p.Name(), p.Type())
			if decl {
				if i == 0 {
					s.assume(dynTypeIs(v.S, kt))
				} else if i == 1 {
					s.assume(dynTypeIs(v.S, vt))
				}
			}
			nf.regs[p] = v
		}
		return nf
	}
	// pass 1: which heaps does one iteration write?
	writes := map[string]bool{}
	for iter := 0; iter < 3; iter++ {
		d := st.clone()
		d.quiet++
		d.writes = map[string]bool{}
		d.lwrites = map[*ssa.Alloc]bool{}
		for h := range writes {
			d.havocHeap(h)
		}
		nf := mkFrame(d)
		d.frames = append(d.frames, nf)
		blocks := map[*ssa.BasicBlock]bool{}
		for _, b := range fn.Blocks {
			blocks[b] = true
		}
		d.stop = &stopCtx{depth: len(d.frames), blocks: blocks}
		e.run(d)
		grew := false
		for h := range d.writes {
			if !writes[h] {
				writes[h] = true
				grew = true
			}
		}
		if !grew {
			break
		}
	}
	havoc := func(s *State) {
		for _, h := range sortedKeys(writes) {
			if h == "$alloc" {
				s.bumpFrontier()
				continue
			}
			s.havocHeap(h)
		}
	}
	// zero iterations: continue unchanged on a fork
	if other := e.fork(st); other != nil {
		other.trace = append(other.trace, "range:0")
		e.run(other)
	}
	// >= 1 iterations: arbitrary earlier iterations, one symbolic iteration, arbitrary later ones
	st.trace = append(st.trace, "range:n")
	havoc(st)
	nf := mkFrame(st)
	nf.onReturn = func(s *State, results []Val) { havoc(s) }
	st.frames = append(st.frames, nf)
	e.inlined[funcDisplayName(fn)] = true
	_ = fmt.Sprint
}

// modelIterate: a repository function whose contract says "iterates f(...)" is called with a closure for f. The call is
// modelled as an arbitrary number of runs of the closure on arguments that satisfy the iterates-requires clauses:
// state written by the closure is havocked, one symbolic run is executed, the state is havocked again. The caller's
// "at iterate <callee>:" assertions are checked after the symbolic run (from an arbitrary earlier state) and assumed
// after the call on the branch with at least one run; the branch with no run is excluded when the callee's
// nonempty-when condition holds. The callee's requires clauses are checked as for any call by contract.
func (e *Engine) modelIterate(st *State, fr *Frame, callee *ssa.Function, ct *Contract, args []Val, pos token.Pos, ins ssa.Instruction) bool {
	is := ct.Iter
	pi := -1
	for i, p := range callee.Params {
		if p.Name() == is.Param {
			pi = i
		}
	}
	if pi < 0 || pi >= len(args) || args[pi].C == nil {
		return false
	}
	f := args[pi]
	fn := f.C.Fn
	e.calledByContract[funcDisplayName(callee)] = true
	cenv := &Env{eng: e, st: st, pkg: e.pkgOf(callee), vars: map[string]Val{}, where: "call " + funcDisplayName(callee)}
	e.bindParams(cenv, callee, args)
	for _, rq := range cenv.expand(ct.Requires) {
		name := e.siteName(st, fr, "requires@"+funcDisplayName(callee)+"["+rq.name+"]", pos, ins)
		st.check("requires", name, rq.term, pos)
	}
	calleeVars := cenv.vars
	mkFrame := func(s *State) *Frame {
		nf := e.newFrame(fn)
		nf.freeVars = f.C.Bindings
		env := &Env{eng: e, st: s, pkg: e.pkgOf(callee), vars: map[string]Val{}, where: "iterates of " + funcDisplayName(callee)}
		for k, v := range calleeVars {
			env.vars[k] = v
		}
		for i, p := range fn.Params {
			v := s.freshVal("iter_"+p.Name(), p.Type())
			e.assumeAllocatedDeep(s, v)
			if ti := typeInv(v.S, p.Type()); ti != "" {
				s.assume(ti)
			}
			nf.regs[p] = v
			if i < len(is.Formals) {
				env.vars[is.Formals[i]] = v
			}
		}
		for _, rq := range env.expand(is.Requires) {
			s.assume(rq.term)
		}
		return nf
	}
	writes := map[string]bool{}
	for iter := 0; iter < 3; iter++ {
		d := st.clone()
		d.quiet++
		d.writes = map[string]bool{}
		d.lwrites = map[*ssa.Alloc]bool{}
		for h := range writes {
			d.havocHeap(h)
		}
		nf := mkFrame(d)
		d.frames = append(d.frames, nf)
		blocks := map[*ssa.BasicBlock]bool{}
		for _, b := range fn.Blocks {
			blocks[b] = true
		}
		d.stop = &stopCtx{depth: len(d.frames), blocks: blocks}
		e.run(d)
		grew := false
		for h := range d.writes {
			if !writes[h] {
				writes[h] = true
				grew = true
			}
		}
		if !grew {
			break
		}
	}
	havoc := func(s *State) {
		for _, h := range sortedKeys(writes) {
			if h == "$alloc" {
				s.bumpFrontier()
				continue
			}
			s.havocHeap(h)
		}
	}
	var events []*EventClause
	if cc := e.contractFor(fr.fn); cc != nil {
		for _, ev := range cc.Events {
			if ev.Kind == "at" && (ev.Target == "iterate "+funcDisplayName(callee) || ev.Target == "iterate "+callee.Name()) {
				ev.Fired++
				events = append(events, ev)
			}
		}
	}
	// no run at all: only when the callee does not promise at least one
	if other := e.fork(st); other != nil {
		feasible := true
		if is.NonEmpty != nil {
			oenv := &Env{eng: e, st: other, pkg: e.pkgOf(callee), vars: calleeVars, where: "nonempty-when of " + funcDisplayName(callee)}
			c := oenv.evalBool(is.NonEmpty)
			if c == "true" {
				feasible = false
			} else {
				other.assume(not(c))
			}
		}
		if feasible {
			other.trace = append(other.trace, "iterate:0")
			e.run(other)
		}
	}
	st.trace = append(st.trace, "iterate:n")
	e.assumptions["higher-order iteration ("+funcDisplayName(callee)+"): the callback runs some number of times on arguments satisfying the iterates-requires clauses; state it writes is havocked around one symbolic run"] = true
	havoc(st)
	nf := mkFrame(st)
	caller := fr
	nf.onReturn = func(s *State, results []Val) {
		for _, ev := range events {
			env := e.eventEnv(s, caller, ev, nil)
			for i, a := range ev.Asserts {
				nm := a.Name
				if nm == "" {
					nm = fmt.Sprint(i)
				}
				name := fmt.Sprintf("%s#iterate[%s].after[%s]", funcDisplayName(caller.fn), callee.Name(), nm)
				if caller.fn != s.unit.Fn {
					name = s.unit.Name + ">" + name
				}
				s.oblige("iterate-after", name, env.evalBool(a.Expr), pos)
			}
		}
		havoc(s)
		for _, ev := range events {
			env := e.eventEnv(s, caller, ev, nil)
			for _, a := range ev.Asserts {
				s.assume(env.evalBool(a.Expr))
			}
		}
	}
	st.frames = append(st.frames, nf)
	e.inlined[funcDisplayName(fn)] = true
	return true
}
