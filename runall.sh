#!/bin/sh
# runs every registered quick check (normal mode) so that the committed evidence files come from real runs
cd /verif || exit 2
rc=0
for id in $(python3 -c "import json;print(' '.join(c['property_id'] for c in json.load(open('MANIFEST.json'))['checks']))"); do
  ./check $id ${1:-quick} | tail -3 | cut -c1-300 || rc=1
done
exit $rc
